"""C09 Cache keys are canonical. Spec: spec/KeyEncoding.tla (abstract key state, framed byte stream Enc, injectivity
checked by TLC on a universe containing every boundary-shift pair). Binding B3: every enumerated state is hashed by the
real hashing.GetTargetChangeHash under xxh3 and sha256; the partition by real key must be the identity partition and
keys must not change under reordering / relocation."""
import json, os
from vlib import core

QUICK = dict(Labels='{"//p:t", "//p:ta"}', Cmds='{"a", "aa"}', Names='{"a", "b", "a,b"}', DeclSets="DeclSetsS", Contents='{"", "x"}', FpKeys='{"k", "k=v", "platform"}', FpVals='{"w", "v=w"}',
             OutSets="OutSetsS", Platforms='{"linux/amd64", "mp"}', DepSets="DepSetsS")
THOROUGH = dict(QUICK, DeclSets="DeclSetsQ", Contents='{"", "x", "xx"}', OutSets="OutSetsQ", Platforms='{"linux/amd64", "linux/arm64", "mp"}', DepSets="DepSetsQ")

def run(chk, tmp, replay=None):
    hbin = core.build_harness(tmp)
    m = QUICK if chk.tier == "quick" else THOROUGH
    lines = ["SPECIFICATION Spec", "CONSTANTS"]
    for k, v in m.items():
        lines.append(f"  {k} {'<-' if k in ('OutSets', 'DepSets', 'DeclSets') else '='} {v}")
    lines += ["  OutFile <- OutFileC", "CHECK_DEADLOCK FALSE"]
    if chk.tier != "quick":
        # the per-state neighbour theorem is checked on the smaller universe (it costs ~150 encodings per state)
        l2 = ["SPECIFICATION Spec", "CONSTANTS"] + [f"  {k} {'<-' if k in ('OutSets', 'DepSets', 'DeclSets') else '='} {v}" for k, v in QUICK.items()]
        l2 += ["  OutFile <- NoOutC", "INVARIANTS NeighboursDiffer", "CHECK_DEADLOCK FALSE"]
        r2 = core.tlc(os.path.join(tmp, "tlc_nb"), "KeyEncodingMC.tla", "k.cfg", timeout=3000, files={"k.cfg": "\n".join(l2) + "\n"}, heap="16g")
        core.tlc_must_pass(r2, "KeyEncoding neighbours")
        chk.add_tlc("KeyEncoding: NeighboursDiffer in every state of the smaller universe", r2)
    wd = os.path.join(tmp, "tlc")
    res = core.tlc(wd, "KeyEncodingMC.tla", "k.cfg", timeout=3000, files={"k.cfg": "\n".join(lines) + "\n"}, heap="16g")
    core.tlc_must_pass(res, "KeyEncoding")
    stats = [l for l in res.out.splitlines() if "KEYSTATS" in l]
    chk.add_tlc("KeyEncoding: Canonical (Enc injective on the universe) + NeighboursDiffer in every state", res, stats=stats[:1])
    out = os.path.join(tmp, "keys_out.json")
    p = core.run([hbin, "keys", os.path.join(wd, "key_states.json"), os.path.join(tmp, "ks"), out], timeout=2400)
    if p.returncode != 0:
        raise core.Infra("keys driver failed: " + p.stderr[-2000:])
    reports = json.load(open(out))
    states = json.load(open(os.path.join(wd, "key_states.json")))
    chk.cov["exhaustive"] = True
    chk.cov["bounds"] = {k: v for k, v in m.items()}
    chk.cov["rule"] = ("every abstract key state of the bounded universe is one TLC state and is hashed by the real GetTargetChangeHash (two algorithms, plus 3 re-declarations "
                       "with shuffled input/output/dependency order, fresh map iteration and another workspace location); distinct = distinct abstract state; all are non-trivial "
                       "(the universe consists of boundary-shift neighbours)")
    for r in reports:
        chk.cov["evaluations"] += r["evaluations"]
        chk.cov["traces_validated_against_impl"] += r["states"]
        chk.cov.setdefault("real_partition", {})[r["algo"]] = {"states": r["states"], "distinct_real_keys": r["distinct_keys"]}
        for c in r["collisions"]:
            chk.violation("key:collision:" + r["algo"], "two different build states receive the same cache key: " + c[:900], {"algo": r["algo"], "detail": c})
        for c in r["unstable"]:
            chk.violation("key:order-dependent:" + r["algo"], "the key of one build state changes under reordering / map iteration / relocation: " + c[:900], {"algo": r["algo"], "detail": c})
        if r["distinct_keys"] != r["states"] and not r["collisions"]:
            raise core.Infra("partition size differs but no collision recorded")
    chk.cov["distinct_nontrivial"] = len(states)
    for s in states[:3]:
        chk.sample({k: s[k] for k in ("label", "cmd", "files", "names", "outs", "fp", "platform", "deps", "enc")})
    chk.assumptions += ["no xxh3-128 / sha256 collision among the enumerated states", "menus as listed in bounds; longer strings are not explored",
                        "dependency output digests are opaque strings (their own canonicity is the output hash's, exercised by the history engine)"]
