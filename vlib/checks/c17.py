"""C17 Labels and patterns follow the documented algebra.
Spec: spec/Labels.tla (function specification, every string <= L is a TLC state, theorems are invariants).
Binding B3: the exported reference table is replayed into the real label package for the same universe."""
import json, os, concurrent.futures as cf
from vlib import core

INVS = "LabelRoundTrip Shorthand Relative PatternRoundTrip ComponentBoundary AllIsPackageLocal NameSuffixExact LabelAsPattern"

def one(chk, tmp, hbin, L, cur, workers):
    wd = os.path.join(tmp, f"tlc_{L}_{cur}")
    cfg = f"SPECIFICATION Spec\nCONSTANTS\n  L = {L}\n  CurPkg <- {cur}\n  OutFile <- OutFileC\nINVARIANTS {INVS}\nCHECK_DEADLOCK FALSE\n"
    res = core.tlc(wd, "LabelsMC.tla", "c17.cfg", workers=workers, timeout=1500, files={"c17.cfg": cfg})
    core.tlc_must_pass(res, f"Labels L={L} cur={cur}")
    out = os.path.join(wd, "out.json")
    p = core.run([hbin, "labels", os.path.join(wd, "labels_export.json"), out], timeout=900)
    if p.returncode != 0:
        raise core.Infra("labels driver failed: " + p.stderr[-2000:])
    return res, json.load(open(out)), os.path.join(wd, "labels_export.json")

def run(chk, tmp, replay=None):
    hbin = core.build_harness(tmp)
    quick = chk.tier == "quick"
    jobs = [(5, "CurPkgP"), (5, "CurPkgPQ"), (4, "CurPkgRoot")] if quick else [(6, "CurPkgP"), (6, "CurPkgPQ"), (6, "CurPkgRoot"), (6, "CurPkgOdd")]
    chk.cov["bounds"] = {"alphabet": "/ : . a l p q 2", "max_len": [j[0] for j in jobs], "current_packages": [j[1] for j in jobs],
                         "label_universe": "12 packages x 7 names"}
    chk.cov["rule"] = ("every string over the 8-symbol alphabet up to the length bound is one TLC state and one call of the real parsers; "
                       "non-trivial = strings in class wf (documented form, exact result required) or other-but-accepted (stability required); distinct by string and current package")
    chk.cov["exhaustive"] = True
    with cf.ThreadPoolExecutor(len(jobs)) as ex:
        futs = [ex.submit(one, chk, tmp, hbin, L, cur, max(2, core.NCPU // len(jobs))) for L, cur in jobs]
        results = [f.result() for f in futs]
    last_export = None
    for (L, cur), (res, out, export) in zip(jobs, results):
        chk.add_tlc(f"Labels L={L} cur={cur}", res, invariants=INVS.split())
        chk.cov["evaluations"] += out["total"] * 2
        chk.cov["traces_validated_against_impl"] += out["total"]
        n = out["counts"].get("label-wf", 0) + out["counts"].get("pattern-wf", 0) + out["counts"].get("label-other", 0)
        chk.cov["distinct_nontrivial"] += n
        chk.cov.setdefault("class_counts", {})[f"L={L},{cur}"] = out["counts"]
        kinds = {}
        for d in out["disagreements"]:
            kinds[d["kind"]] = kinds.get(d["kind"], 0) + 1
        if kinds:
            core.log(f"  L={L} {cur}: disagreements by kind {kinds}")
        for d in out["disagreements"]:
            chk.violation(f"{d['kind']}:{cur}:{d['s']}", f"string {d['s']!r} (current package {cur}): expected {d['expected']!r}, real code gave {d['got']!r}", d)
        last_export = export
    ex = json.load(open(last_export))
    for r in ex["patterns"][:3] + ex["labels"][:3]:
        chk.sample(r)
    if not quick:
        # binding self-test: a corrupted reference row must be reported by the harness
        ex["patterns"][0]["matches"] = list(ex["patterns"][0]["matches"]) + ["//zz:zz"]
        ex["labels"] = [dict(r, name=r["name"] + "x") if i == 0 and r["class"] == "wf" else r for i, r in enumerate(sorted(ex["labels"], key=lambda r: r["class"] != "wf"))]
        bad = os.path.join(tmp, "bad_export.json")
        json.dump(ex, open(bad, "w"))
        p = core.run([hbin, "labels", bad, os.path.join(tmp, "bad_out.json")], timeout=900)
        n = len(json.load(open(os.path.join(tmp, "bad_out.json")))["disagreements"]) if p.returncode == 0 else -1
        chk.cov["binding_selftest"] = {"corrupted_rows": 2, "disagreements_reported": n}
        if n < 2:
            raise core.Infra("binding self-test failed: corrupted reference rows were not noticed")
    chk.assumptions += ["the documented forms are those of docs/reference/labels.md; strings outside them (class other) are only required to be stable under print/re-parse",
                        "length bound and alphabet as stated; longer strings are not explored"]
