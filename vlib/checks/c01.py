"""C01: decided by spec/GrogBuild.tla (exhaustive TLC over histories) + behaviour replay into the real binary (vlib/build_engine.py)."""
from vlib.checks import _hist

def run(chk, tmp, replay=None):
    _hist.run(chk, tmp, "C01")
