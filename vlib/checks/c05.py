"""C05: walker level (Walker.tla exhaustive + trace validation of the real walker/pool, refinement of Executor.tla) and CLI level
(GrogBuild.tla histories with failing commands, timeouts, missing outputs and failing checks replayed into the real binary; a
fail-fast sample that binds the --fail-fast flag and the fail_fast setting to the walker)."""
import json, os, subprocess
from vlib import core, walker_engine
from vlib.checks import _hist

N_WIDE = 8


def failfast_cli(chk, tmp):
    """Executor.tla: once the stop is under way no command starts (XNoCommandAfterStop). At the CLI the stop is under way from the first
    failure on; with one worker at most the task already handed to the worker can still start its command. N_WIDE independent
    failing targets, num_workers = 1: keep-going runs all of them, fail-fast must run far fewer and exit non-zero either way."""
    grog = core.build_grog(tmp)
    results = {}
    for how in ("keep-going", "flag", "config"):
        base = os.path.join(tmp, "ff_" + how)
        ws = os.path.join(base, "ws")
        os.makedirs(os.path.join(ws, "pkg"))
        toml = "num_workers = 1\n" + ("fail_fast = true\n" if how == "config" else "")
        open(os.path.join(ws, "grog.toml"), "w").write(toml)
        targets = [{"name": f"t{i}", "command": 'echo S >> "$GROG_WORKSPACE_ROOT/../trace"; sleep 0.2; exit 1'} for i in range(N_WIDE)]
        json.dump({"targets": targets}, open(os.path.join(ws, "pkg", "BUILD.json"), "w"))
        env = dict(os.environ, GROG_ROOT=os.path.join(base, "root"), HOME=base, NO_COLOR="1")
        try:
            p = subprocess.run([grog, "build"] + (["--fail-fast"] if how == "flag" else []) + ["//..."], cwd=ws, env=env, capture_output=True, text=True, timeout=120)
        except subprocess.TimeoutExpired:
            chk.violation("failfast:build-does-not-return", f"{how}: a build of {N_WIDE} independent failing targets did not return within 120 s", {"how": how})
            continue
        tr = os.path.join(base, "trace")
        started = len(open(tr).read().split()) if os.path.exists(tr) else 0
        results[how] = {"started": started, "rc": p.returncode}
        chk.count(("failfast-cli", how), nontrivial=True)
        if p.returncode == 0:
            chk.violation("failfast:exit-zero", f"{how}: every target fails and grog exits 0", {"how": how, "tail": (p.stdout + p.stderr)[-400:]})
        if how == "keep-going" and started != N_WIDE:
            chk.violation("keepgoing:independent-target-not-built", f"keep-going: {started} of {N_WIDE} independent failing targets were started", results[how])
        if how != "keep-going" and started > N_WIDE // 2:
            chk.violation("failfast:targets-start-after-the-first-failure", f"fail-fast ({how}), one worker: {started} of {N_WIDE} independent failing targets were started "
                          "(after the first failure at most the task already handed to the worker may still start)", results[how])
    chk.cov["failfast_cli"] = results


def run(chk, tmp, replay=None):
    walker_engine.run(chk, tmp, "C05")
    _hist.run(chk, tmp, "C05")
    failfast_cli(chk, tmp)
