"""C05: walker level (Walker.tla exhaustive + trace validation of the real walker/pool) and CLI level
(GrogBuild.tla histories with failing commands, timeouts, missing outputs and failing checks replayed into the real binary)."""
from vlib import walker_engine
from vlib.checks import _hist

def run(chk, tmp, replay=None):
    walker_engine.run(chk, tmp, "C05")
    _hist.run(chk, tmp, "C05")
