"""C11 Invalid build graphs are rejected before anything runs; valid ones accepted.
Spec: spec/Analysis.tla (Valid written from the property; four bounded families, every graph one TLC state).
Binding B3: every exported graph is rendered to BUILD files and pushed through the real loader + BuildGraph +
CheckTargetConstraints in-process; a sample goes through the real `grog check` and `grog build` (nothing may run on reject)."""
import json, os, random
from concurrent.futures import ThreadPoolExecutor
from vlib import core

def run(chk, tmp, replay=None):
    quick = chk.tier == "quick"
    hbin = core.build_harness(tmp)
    cfg = ("SPECIFICATION Spec\nCONSTANTS\n  OutFile <- OutFileC\n  OutMenu <- %s\n  FamilyASample = %d\n"
           "INVARIANTS AcyclicImpliesNoSelf OrderedNeverConflicts NoOutputsNoConflict\nCHECK_DEADLOCK FALSE\n") % ("OutMenuQuick" if quick else "OutMenuFull", 7 if quick else 1)
    wd = os.path.join(tmp, "tlc")
    res = core.tlc(wd, "AnalysisMC.tla", "a.cfg", timeout=3000, files={"a.cfg": cfg}, heap="24g")
    core.tlc_must_pass(res, "Analysis")
    chk.add_tlc("Analysis: every graph of families A (dependency structure, aliases, test rules), B (outputs), C (inputs), D (duplicates)", res)
    cases = os.path.join(wd, "analysis_cases.json")
    out = os.path.join(tmp, "an_out.json")
    p = core.run([hbin, "analysis", cases, os.path.join(tmp, "as"), out], timeout=3000)
    if p.returncode != 0:
        raise core.Infra("analysis driver failed: " + p.stderr[-2000:])
    d = json.load(open(out))
    chk.cov["evaluations"] = d["total"]
    chk.cov["traces_validated_against_impl"] = d["total"]
    chk.cov["distinct_nontrivial"] = d["total"]
    chk.cov["exhaustive"] = not quick
    chk.cov["case_counts"] = d["counts"]
    chk.cov["rule"] = ("every enumerated graph is rendered to BUILD.json/BUILD.yaml files and loaded by the real loader, node map, BuildGraph and CheckTargetConstraints; "
                       "accept/reject must equal Valid; all cases distinct by construction (quick: every 7th graph of family A)")
    chk.cov["bounds"] = {"A": "3 nodes, each a target (deps subset of {n1,n2,n3,undefined}, plain/test/testonly) or an alias (actual in the same set)",
                         "B": "3 targets in packages p, p, p/d x 5 dependency shapes (incl. ordering through an alias) x one output each from a menu of %d spellings" % (10 if quick else 13),
                         "C": "one target, every subset of 7 input spellings", "D": "7 duplicate-label layouts (same file, two BUILD files of one package, different packages)"}
    for x in d["disagreements"]:
        reasons = ",".join((x["case"].get("reasons") or []) if isinstance(x["case"], dict) else [])
        kind = "rejects-valid" if x["model_valid"] else "accepts-invalid"
        if x["stage"] == "panic":
            kind = "panic"
        chk.violation(f"analysis:{kind}:{x['family']}:{reasons}", f"family {x['family']} graph {json.dumps(x['case'])[:500]}: specification says valid={x['model_valid']}, "
                      f"the real loader/analysis {'accepted' if x['real_accepted'] else 'rejected at ' + x['stage'] + ': ' + x['msg'][:200]}", x)
    # CLI sample: grog check exit status, and nothing runs on reject
    grog = core.build_grog(tmp)
    allc = json.load(open(cases))
    rng = random.Random(chk.seed)
    picks = []
    for fam in "ABCD":
        idxs = list(range(len(allc[fam])))
        rng.shuffle(idxs)
        want = {"A": 24, "B": 24, "C": 8, "D": 7}[fam] * (1 if quick else 6)
        val = [i for i in idxs if allc[fam][i]["valid"]][: want // 2]
        inv = [i for i in idxs if not allc[fam][i]["valid"]][: want - len(val)]
        picks += [(fam, i) for i in val + inv]

    def cli(fi):
        fam, i = fi
        base = os.path.join(tmp, "cli", f"{fam}{i}")
        ws = os.path.join(base, "ws")
        os.makedirs(ws)
        r = core.run([hbin, "analysis-render", cases, fam, str(i), ws])
        if r.returncode != 0:
            raise core.Infra("render failed: " + r.stderr)
        env = dict(os.environ, GROG_ROOT=os.path.join(base, "root"), HOME=base)
        c = core.run([grog, "check"], cwd=ws, env=env, timeout=60)
        b = core.run([grog, "build", "//..."], cwd=ws, env=env, timeout=60)
        ran = os.path.exists(os.path.join(base, "ran"))
        return fam, i, allc[fam][i], c.returncode, b.returncode, ran, (c.stdout + c.stderr)[-300:]

    with ThreadPoolExecutor(core.NCPU) as ex:
        for fam, i, case, crc, brc, ran, text in ex.map(cli, picks):
            chk.cov["evaluations"] += 1
            valid = case["valid"]
            if "panic:" in text or "goroutine " in text:
                chk.violation(f"analysis:cli-panic:{fam}", f"grog check crashed on family {fam} case {json.dumps(case)[:300]}: {text}", case)
            elif valid != (crc == 0):
                chk.violation(f"analysis:cli-check:{fam}:{'rejects-valid' if valid else 'accepts-invalid'}", f"`grog check` exit {crc} on a graph the specification calls valid={valid}: {json.dumps(case)[:400]} {text}", case)
            elif not valid and (brc == 0 or ran):
                chk.violation(f"analysis:cli-build-ran:{fam}", f"`grog build` on an invalid graph exit={brc} commands-ran={ran}: {json.dumps(case)[:400]}", case)
    chk.cov["cli_sample"] = len(picks)
    for fam in "ABC":
        chk.sample({"family": fam, "case": allc[fam][0]})
    chk.assumptions += ["out of domain (DESIGN.md section 7 C11): one target overlapping its own outputs, glob inputs containing '..', a directory output below another target's file path",
                        "docker image tags are compared as strings (no daemon)"]
