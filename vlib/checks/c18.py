"""C18 Interrupts stop the build promptly and leave a recoverable state.
Spec: spec/Interrupt.tla (life of one build process with a signal at any moment; NoStartAfterSignal, NoResultForInterrupted,
InterruptedExitsNonZero, LockReleasedAtExit, ExitsEventually) -- with Walker.tla's ExtCancel runs for the goroutine level.
Binding B1: real `grog build` processes on graphs of slow targets receive SIGINT / SIGTERM at controlled points (during loading,
while commands run, between a command's end and the storing of its outputs / result, at random times); the hook events, the shell
trace and the exit status of each run are validated against Interrupt.tla; exit must follow within a bound, the target shells must
be gone, interrupted targets must have no cache entry, and the follow-up build must take the lock and equal the from-scratch build."""
import json, os, random, re, shutil, signal, subprocess, time
from concurrent.futures import ThreadPoolExecutor
from vlib import core, walker_engine
from vlib.build_engine import digest_path

SHAPES = {"fan": {"a": [], "b": [], "c": ["a", "b"]}, "chain": {"a": [], "b": ["a"], "c": ["b"]}, "wide": {"a": [], "b": [], "c": []}}
WORKERS = {"fan": 2, "chain": 2, "wide": 1}     # wide: more ready targets than workers, jobs wait in the pool's queue


def make_ws(base, shape):
    ws = os.path.join(base, "ws")
    os.makedirs(os.path.join(ws, "pkg"))
    open(os.path.join(ws, "grog.toml"), "w").write(f"num_workers = {WORKERS[shape]}\n")
    targets = []
    for t, deps in SHAPES[shape].items():
        # the commands tolerate a polite termination: on TERM they leave a partial output behind and exit 0 (a clean-up idiom).
        # grog kills its shells outright, so this never runs on a conforming tree; it makes "interrupted" and "exit 0" separable
        cmd = (f'trap \'echo partial > {t}.out; echo "T {t}" >> "$GROG_WORKSPACE_ROOT/../trace"; exit 0\' TERM\n'
               f'echo "S {t} $$" >> "$GROG_WORKSPACE_ROOT/../trace"\n'
               f'while [ -f "$GROG_WORKSPACE_ROOT/../slow_{t}" ]; do sleep 0.05; done\n'
               f'{{ echo {t}; cat {t}.in {" ".join(d + ".out" for d in deps)}; }} | sha256sum > {t}.out\n'
               f'echo "E {t}" >> "$GROG_WORKSPACE_ROOT/../trace"')
        targets.append({"name": t, "command": cmd, "inputs": [t + ".in"], "outputs": [t + ".out"], "dependencies": [":" + d for d in deps]})
        open(os.path.join(ws, "pkg", t + ".in"), "w").write(t + "\n")
    json.dump({"targets": targets}, open(os.path.join(ws, "pkg", "BUILD.json"), "w"))
    return ws


def wait_for(path, needle, timeout=20):
    t0 = time.time()
    while time.time() - t0 < timeout:
        try:
            if needle in open(path).read():
                return True
        except OSError:
            pass
        time.sleep(0.01)
    return False


def one(grog, tmp, case, clean):
    cid, shape, point, sig, delay_ms = case
    base = os.path.join(tmp, f"int_{cid}")
    os.makedirs(base)
    ws = make_ws(base, shape)
    trace, hook = os.path.join(base, "trace"), os.path.join(base, "hook.ndjson")
    open(trace, "w").close()
    for t in "abc":
        open(os.path.join(base, "slow_" + t), "w").close()
    env = dict(os.environ, GROG_ROOT=os.path.join(base, "root"), HOME=base, GROG_VERIF_TRACE=hook)
    if point == "storing-result":
        env["GROG_VERIF_DELAY"] = "t.before.result=500"
    elif point == "storing-outputs":
        env["GROG_VERIF_DELAY"] = "t.before.store=500"
    problems = []
    proc = subprocess.Popen([grog, "build", "//..."], cwd=ws, env=env, stdout=subprocess.PIPE, stderr=subprocess.STDOUT, text=True)
    try:
        if point == "loading":
            time.sleep(delay_ms / 1000.0)
        elif point == "command-running":
            if not wait_for(trace, "S "):
                raise core.Infra("no target ever started")
            time.sleep(delay_ms / 1000.0)
        elif point in ("storing-result", "storing-outputs", "after-first-target"):
            if not wait_for(trace, "S "):
                raise core.Infra("no target ever started")
            first = open(trace).read().split()[1]
            os.remove(os.path.join(base, "slow_" + first))
            if not wait_for(trace, "E " + first):
                raise core.Infra(f"target {first} never finished")
            time.sleep((100 + delay_ms) / 1000.0 if point != "after-first-target" else 0.7 + delay_ms / 1000.0)
        elif point == "random":
            os.remove(os.path.join(base, "slow_a"))
            if delay_ms % 2:
                os.remove(os.path.join(base, "slow_b"))
            if shape == "wide" and delay_ms % 3 == 0:
                os.remove(os.path.join(base, "slow_c"))
            time.sleep(delay_ms / 1000.0)
        t_sig = time.time()
        proc.send_signal(sig)
        try:
            out, _ = proc.communicate(timeout=30)
            elapsed = time.time() - t_sig
        except subprocess.TimeoutExpired:
            proc.kill()
            out, _ = proc.communicate()
            problems.append(("no-exit-within-30s-of-signal", f"signal {sig} at {point}: the process was still there 30 s later"))
            elapsed = 30.0
        code = proc.returncode
        time.sleep(0.2)
        # events -> trace of Interrupt.tla
        evs = []
        for l in open(hook) if os.path.exists(hook) else []:
            try:
                evs.append(json.loads(l))
            except ValueError:
                pass
        evs.sort(key=lambda e: e.get("seq", 0))
        sig_seq = next((e["seq"] for e in evs if e.get("k") == "signal.observed"), None)
        tl = open(trace).read().splitlines()
        started = {l.split()[1]: int(l.split()[2]) for l in tl if l.startswith("S ")}
        tr, keys, refused = [], {}, set()
        for e in evs:
            k = e.get("k")
            t = e.get("t", "").split(":")[-1]
            if k == "lock.held":
                tr.append({"a": "AcquireLock", "t": "", "code": 0})
            elif k == "signal.observed":
                tr.append({"a": "Signal", "t": "", "code": 0})
            elif k == "t.lookup":
                keys[t] = e.get("key")
            elif k == "t.cmd.start":
                if sig_seq is not None and e["seq"] > sig_seq and t not in started:
                    refused.add(t)
                    tr.append({"a": "RefuseCmd", "t": t, "code": 0})
                else:
                    tr.append({"a": "StartCmd", "t": t, "code": 0})
            elif k == "t.cmd.end":
                if t in refused:
                    continue
                if e.get("ok"):
                    tr.append({"a": "EndCmd", "t": t, "code": 0})
                else:
                    tr.append({"a": "KillCmd", "t": t, "code": 0})
            elif k == "t.result.write":
                tr.append({"a": "WriteResult", "t": t, "code": 0})
        tr.append({"a": "Exit", "t": "", "code": 0 if code == 0 else 1})
        # a signal that arrived before the handler was installed kills the process by default: nothing ran, nothing to validate
        if sig_seq is None and code is not None and code < 0:
            tr = []
        if elapsed > 15:
            problems.append(("slow-exit-after-signal", f"{elapsed:.1f} s between the signal ({point}) and process exit"))
        for t, pid in started.items():
            if os.path.exists(f"/proc/{pid}"):
                try:
                    cmdline = open(f"/proc/{pid}/cmdline").read()
                except OSError:
                    cmdline = ""
                if "sh" in cmdline:
                    problems.append(("target-shell-survives", f"shell {pid} of target {t} is still running after grog exited"))
        # cache entries: none for a target whose command did not complete
        cache = None
        rootd = os.path.join(base, "root")
        for d in os.listdir(rootd) if os.path.isdir(rootd) else []:
            if os.path.isdir(os.path.join(rootd, d, "cache")):
                cache = os.path.join(rootd, d, "cache")
        completed = {l.split()[1] for l in tl if l.startswith("E ")}
        for t, key in keys.items():
            if key and cache and os.path.exists(os.path.join(cache, "target", key)) and t not in completed:
                problems.append(("cache-entry-for-interrupted-target", f"target {t} has a cache entry although its command never completed"))
        # the next build on the same workspace
        for t in "abc":
            p = os.path.join(base, "slow_" + t)
            if os.path.exists(p):
                os.remove(p)
        env2 = dict(env)
        env2.pop("GROG_VERIF_DELAY", None)
        env2.pop("GROG_VERIF_TRACE", None)
        t0 = time.time()
        try:
            p2 = subprocess.run([grog, "build", "//..."], cwd=ws, env=env2, capture_output=True, text=True, timeout=60)
            if p2.returncode != 0:
                problems.append(("follow-up-build-fails", (p2.stdout + p2.stderr)[-300:]))
            else:
                if "Waiting" in p2.stdout:
                    problems.append(("follow-up-build-waited-for-a-dead-lock-holder", p2.stdout[-200:]))
                got = {t: digest_path(os.path.join(ws, "pkg", t + ".out")) for t in "abc"}
                if got != clean[shape]:
                    problems.append(("follow-up-build-differs-from-clean", f"{got} vs {clean[shape]}"))
        except subprocess.TimeoutExpired:
            problems.append(("follow-up-build-blocked", "the build after the interrupted one did not finish within 60 s (lock not recoverable?)"))
        return case, code, elapsed, tr, problems, out[-300:] if out else ""
    finally:
        try:
            proc.kill()
        except Exception:
            pass
        shutil.rmtree(base, ignore_errors=True)


def run(chk, tmp, replay=None):
    quick = chk.tier == "quick"
    for name, deps in (("fan", "FanDeps"), ("chain", "ChainDeps"), ("wide", "WideDeps")):
        cfg = f"SPECIFICATION Spec\nCONSTANTS\n  Targets <- T3\n  Deps <- {deps}\nINVARIANTS NoResultForInterrupted InterruptedExitsNonZero LockReleasedAtExit\nPROPERTIES NoStartAfterSignal\n"
        res = core.tlc(os.path.join(tmp, "ex_" + name), "InterruptMC.tla", "i.cfg", timeout=600, files={"i.cfg": cfg})
        core.tlc_must_pass(res, "Interrupt " + name)
        chk.add_tlc(f"Interrupt exhaustive ({name}): a signal in every state; NoStartAfterSignal, NoResultForInterrupted, InterruptedExitsNonZero, LockReleasedAtExit", res)
        cfg = f"SPECIFICATION FairSpec\nCONSTANTS\n  Targets <- T3\n  Deps <- {deps}\nPROPERTIES ExitsEventually\n"
        res = core.tlc(os.path.join(tmp, "live_" + name), "InterruptMC.tla", "i.cfg", timeout=600, files={"i.cfg": cfg})
        core.tlc_must_pass(res, "Interrupt liveness " + name)
        chk.add_tlc(f"Interrupt liveness ({name}): ExitsEventually", res)
    n, wall = core.tlapm(os.path.join(tmp, "proof"), "InterruptProof.tla")
    chk.cov["proofs"] = [{"module": "InterruptProof.tla", "theorem": "Spec => [](NoResultForInterrupted /\\ InterruptedExitsNonZero /\\ LockReleasedAtExit) /\\ NoStartAfterSignal for any target set and dependency relation",
                          "obligations_proved": n, "wall_s": wall, "tool": "tlapm (SMT, Zenon, Isabelle, PTL back ends)"}]
    grog = core.build_grog(tmp)
    clean = {}
    for shape in SHAPES:
        base = os.path.join(tmp, "clean_" + shape)
        os.makedirs(base)
        ws = make_ws(base, shape)
        p = subprocess.run([grog, "build", "//..."], cwd=ws, env=dict(os.environ, GROG_ROOT=os.path.join(base, "root"), HOME=base), capture_output=True, text=True, timeout=60)
        if p.returncode != 0:
            raise core.Infra("reference build failed: " + (p.stdout + p.stderr)[-300:])
        clean[shape] = {t: digest_path(os.path.join(ws, "pkg", t + ".out")) for t in "abc"}
        shutil.rmtree(base, ignore_errors=True)
    rng = random.Random(chk.seed)
    cases, cid = [], 0
    reps = 1 if quick else 6
    for shape in SHAPES:
        for sig in (signal.SIGINT, signal.SIGTERM):
            for point, delays in (("loading", [0, 3, 10, 30, 80]), ("command-running", [0, 50]), ("storing-result", [0, 150, 300]), ("storing-outputs", [0, 150, 300]),
                                  ("after-first-target", [0]), ("random", [rng.randint(0, 1500) for _ in range(3 if quick else 12)])):
                for d in delays:
                    for _ in range(reps):
                        cid += 1
                        cases.append((cid, shape, point, sig, d))
    chk.cov["rule"] = ("one evaluation = one real build process interrupted at one point, validated as a behaviour of Interrupt.tla and followed by the recovery build; "
                       "distinct = (graph shape, signal, delivery point, delay); non-trivial = the signal handler observed the signal while the build was alive")
    chk.cov["bounds"] = {"graphs": list(SHAPES), "signals": ["SIGINT", "SIGTERM"], "points": ["loading", "command-running", "storing-outputs", "storing-result", "after-first-target", "random"]}
    with ThreadPoolExecutor(core.NCPU) as ex:
        results = list(ex.map(lambda c: one(grog, tmp, c, clean), cases))
    for shape, deps in (("fan", "FanDeps"), ("chain", "ChainDeps"), ("wide", "WideDeps")):
        group = [(r[0], r[3]) for r in results if r[0][1] == shape and r[3]]
        if not group:
            continue
        cfg = f"SPECIFICATION TSpec\nCONSTANTS\n  Targets <- T3\n  Deps <- {deps}\n  TraceFile <- TraceFileC\nINVARIANTS Diag\nCONSTRAINT HighWater\nPOSTCONDITION Accepted\nCHECK_DEADLOCK FALSE\n"
        res = core.tlc(os.path.join(tmp, "tv_" + shape), "InterruptTraceMC.tla", "t.cfg", workers=1, timeout=900,
                       files={"t.cfg": cfg, "interrupt_traces.json": json.dumps([{"ev": tr} for _, tr in group])}, java_opts="-Dtlc2.tool.queue.IStateQueue=StateDeque")
        if res.rc != 0 or "Model checking completed" not in res.out:
            raise core.Infra("interrupt trace validation failed:\n" + res.out[-2000:])
        chk.add_tlc(f"InterruptTrace validation ({shape})", res, traces=len(group))
        for line in res.out.splitlines():
            m = re.match(r'<<"WHY", (\d+), (\d+), "(\w+)", \{(.*)\}>>', line)
            if m:
                case, tr = group[int(m.group(1)) - 1]
                whys = re.findall(r'"([^"]+)"', m.group(4))
                chk.violation("interrupt:" + ",".join(whys), f"{case[1]} graph, signal {case[3].name} at {case[2]}+{case[4]}ms: step {m.group(3)} rejected by Interrupt.tla ({whys}); events {[(e['a'], e['t']) for e in tr]}", {"case": str(case), "events": tr})
            m = re.match(r'<<"INV", "(\w+)", (\d+), (\d+)>>', line)
            if m:
                case, tr = group[int(m.group(2)) - 1]
                chk.violation("interrupt:" + m.group(1), f"{case[1]} graph, signal {case[3].name} at {case[2]}+{case[4]}ms: invariant {m.group(1)} false; events {[(e['a'], e['t']) for e in tr]}", {"case": str(case), "events": tr})
    observed = 0
    for case, code, elapsed, tr, problems, tail in results:
        chk.cov["traces_validated_against_impl"] += 1
        nontrivial = any(e["a"] == "Signal" for e in tr)
        observed += nontrivial
        chk.count((case[1], case[2], case[3].name, case[4]), nontrivial)
        for kind, detail in problems:
            chk.violation("interrupt:" + kind, f"{case[1]} graph, signal {case[3].name} at {case[2]}+{case[4]}ms (exit {code} after {elapsed:.2f}s): {detail}", {"case": str(case), "detail": detail, "tail": tail})
    chk.cov["signals_observed_by_handler"] = observed
    chk.cov["max_exit_latency_s"] = round(max(r[2] for r in results), 2)
    ex0 = next((r for r in results if r[3]), results[0])
    chk.sample({"case": str(ex0[0]), "exit": ex0[1], "events": [(e["a"], e["t"]) for e in ex0[3]]})
    # the goroutine level: the walker + pool under external cancellation (shared engine, anomalies of cancelled runs)
    walker_engine.run(chk, tmp, "C18")
    chk.assumptions += ["a signal delivered before the handler is installed terminates the process by default action (nothing has started; only the recovery build is checked)",
                        "shells are the direct sh processes grog started; their own children are not tracked"]
