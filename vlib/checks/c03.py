"""C03: walker level (Walker.tla exhaustive + trace validation of the real walker/pool under controlled schedules) and CLI level
(the hook events of real builds with 1..4 workers in both load_outputs modes validated against spec/Pipeline.tla: a target is hashed
only after all its dependencies are done, one command start per target and build, never more tasks than num_workers)."""
from vlib import walker_engine
from vlib.checks import _hist

def run(chk, tmp, replay=None):
    walker_engine.run(chk, tmp, "C03")
    _hist.run(chk, tmp, "C03")
