"""C20 Query commands agree with the graph and predict rebuilds.
Spec: spec/Query.tla (deps/rdeps on the node graph, inverse theorems checked by TLC in every state; owners; list; Affected).
Binding B3: the stdout of the real `grog deps|rdeps|owners|list` on every exported graph (quick: a sample) must be exactly the
specified label sets, each label once; after editing a file the re-executed targets must lie inside owners(f) and their
transitive rdeps as printed by the real commands (and as the specification says)."""
import json, os, random, re
from concurrent.futures import ThreadPoolExecutor
from vlib import core
from vlib.checks.c12 import PKG

FILES = {"n1": ["a.txt"], "n2": ["a.txt", "b.txt"], "n3": ["c.txt"], "r": None}


def name(g, n):
    return n + "test" if n in g["test"] else n


def lab(g, n):
    return f"//{PKG[n]}:{name(g, n)}"


def render(ws, g):
    pk = {}
    for n in ("n1", "n2", "n3", "r"):
        d = pk.setdefault(PKG[n], {"targets": [], "aliases": []})
        if n == "n2" and g["alias2"] != "none":
            d["aliases"].append({"name": "n2", "actual": lab(g, g["alias2"])})
            continue
        t = {"name": name(g, n), "command": f'echo {n} >> "$GROG_WORKSPACE_ROOT/../ran"; cat *.txt > /dev/null', "inputs": ["*.txt"] if n == "r" else FILES[n]}
        deps = g["deps"].get(n) or []
        if deps:
            t["dependencies"] = [lab(g, x) for x in deps]
        d["targets"].append(t)
    for p, d in pk.items():
        os.makedirs(os.path.join(ws, p), exist_ok=True)
        json.dump(d, open(os.path.join(ws, p, "BUILD.json"), "w"))
    for f in ("p/a.txt", "p/b.txt", "p/q/c.txt", "r/x.txt", "r/y.txt"):
        open(os.path.join(ws, f), "w").write("v0\n")
    open(os.path.join(ws, "grog.toml"), "w").write("")


def labels_of(stdout):
    return [l.strip() for l in stdout.splitlines() if l.strip().startswith("//")]


def run(chk, tmp, replay=None):
    quick = chk.tier == "quick"
    cfg = "SPECIFICATION QSpec\nCONSTANTS\n  OutFile <- NoOutC\n  QOutFile <- QOutFileC\n  DepChoice = \"all\"\nINVARIANTS DepsRdepsInverse TransitiveContainsDirect ChangesWithinAffected\nCHECK_DEADLOCK FALSE\n"
    wd = os.path.join(tmp, "tlc")
    res = core.tlc(wd, "QueryMC.tla", "q.cfg", timeout=1500, files={"q.cfg": cfg}, heap="8g")
    core.tlc_must_pass(res, "Query")
    chk.add_tlc("Query: every graph (4 nodes, optional alias, test names, 64 dependency shapes); DepsRdepsInverse, TransitiveContainsDirect", res)
    allc = json.load(open(os.path.join(wd, "query_cases.json")))
    grog = core.build_grog(tmp)
    rng = random.Random(chk.seed)
    graphs = list(allc["graphs"])
    rng.shuffle(graphs)
    if quick:
        # keep the diamonds (a node with two paths to another) in the sample: they are where path enumeration shows
        dia = [c for c in graphs if any(len(c["tdeps"][n]) < sum(len(c["tdeps"][m]) + 1 for m in c["deps"][n]) for n in c["deps"])]
        graphs = dia[:25] + [c for c in graphs if c not in dia][:15]
    chk.cov["bounds"] = {"graphs": len(graphs), "of": len(allc["graphs"]), "queries_per_graph": "deps/rdeps x direct/transitive x 4 nodes, target-type filters on one node, owners x 6 files, list x 11 pattern sets x 3 types"}
    chk.cov["rule"] = "one evaluation = one real query command whose stdout (labels, in order, with multiplicity) is compared with the specification's set; distinct by (graph, command line)"

    def one(ic):
        i, c = ic
        g = c["g"]
        base = os.path.join(tmp, "q", str(i))
        ws = os.path.join(base, "ws")
        os.makedirs(ws)
        render(ws, g)
        env = dict(os.environ, GROG_ROOT=os.path.join(base, "root"), HOME=base)
        bad, n = [], 0

        def q(args, expect, what, cwd=ws):
            nonlocal n
            n += 1
            p = core.run([grog] + args, cwd=cwd, env=dict(env, GIT_CONFIG_GLOBAL="/dev/null"), timeout=60)
            got = labels_of(p.stdout)
            exp = sorted(expect)
            if p.returncode != 0 or "panic" in p.stderr:
                bad.append((what + ":command-failed", args, exp, (p.stderr + p.stdout)[-300:]))
            elif sorted(got) != exp:
                kind = "duplicates" if sorted(set(got)) == exp else "wrong-set"
                bad.append((what + ":" + kind, args, exp, got))

        aliases = set(c["aliases"])
        for nd in ("n1", "n2", "n3", "r"):
            L = lab(g, nd)
            q(["deps", L], [lab(g, x) for x in c["deps"][nd]], "deps")
            q(["deps", "-t", L], [lab(g, x) for x in c["tdeps"][nd]], "deps-t")
            q(["rdeps", L], [lab(g, x) for x in c["rdeps"][nd]], "rdeps")
            q(["rdeps", "-t", L], [lab(g, x) for x in c["trdeps"][nd]], "rdeps-t")
        for ty in ("test", "no_test"):
            ok = lambda x: x in aliases or (ty == "test") == (x in g["test"])
            q(["deps", "-t", "--target-type", ty, lab(g, "r")], [lab(g, x) for x in c["tdeps"]["r"] if ok(x)], "deps-t-type")
            q(["rdeps", "-t", "--target-type", ty, lab(g, "n1")], [lab(g, x) for x in c["trdeps"]["n1"] if ok(x)], "rdeps-t-type")
        for f, owners in c["owners"].items():
            q(["owners", f], [lab(g, x) for x in owners], "owners")
        for k, pats in enumerate(allc["patterns"]):
            for ty in ("all", "test", "no_test"):
                q(["list", "--target-type", ty] + sorted(pats), [lab(g, x) for x in c["list"][k][ty]], "list", cwd=os.path.join(ws, "p"))
        # rebuild prediction: build everything, edit one file, rebuild; what runs must lie inside owners(f) + transitive rdeps
        hist = []
        if i % (4 if quick else 1) == 0:
            genv = dict(env, GIT_AUTHOR_NAME="v", GIT_AUTHOR_EMAIL="v@example.invalid", GIT_COMMITTER_NAME="v", GIT_COMMITTER_EMAIL="v@example.invalid", GIT_CONFIG_GLOBAL="/dev/null")
            for gc in (["git", "init", "-q"], ["git", "add", "-A"], ["git", "commit", "-q", "-m", "base"]):
                core.run(gc, cwd=ws, env=genv, timeout=60)
            b1 = core.run([grog, "build", "//..."], cwd=ws, env=env, timeout=120)
            b1t = core.run([grog, "test", "//..."], cwd=ws, env=env, timeout=120)
            for f in ("p/a.txt", "p/q/c.txt", "r/y.txt"):
                ranf = os.path.join(base, "ran")
                if os.path.exists(ranf):
                    os.remove(ranf)
                open(os.path.join(ws, f), "a").write("edit\n")
                core.run([grog, "build", "//..."], cwd=ws, env=env, timeout=120)
                core.run([grog, "test", "//..."], cwd=ws, env=env, timeout=120)
                ran = sorted(set(open(ranf).read().split())) if os.path.exists(ranf) else []
                own = labels_of(core.run([grog, "owners", f], cwd=ws, env=env, timeout=60).stdout)
                pred = set(own)
                for o in own:
                    pred |= set(labels_of(core.run([grog, "rdeps", "-t", o], cwd=ws, env=env, timeout=60).stdout))
                ran_l = {lab(g, x) for x in ran}
                n += 1
                if not ran_l <= pred:
                    bad.append(("predict:rebuild-outside-owners-rdeps", ["edit", f], sorted(pred), sorted(ran_l)))
                if not set(ran) <= set(c["affected"][f]):
                    bad.append(("predict:rebuild-outside-model-affected", ["edit", f], sorted(c["affected"][f]), ran))
                # `grog changes` since the base commit: exactly the files edited so far are changed
                edited = [x for x in ("p/a.txt", "p/q/c.txt", "r/y.txt") if x == f or any(h[0] == x for h in hist)]
                for flag, keyname in ((["--dependents=none"], "direct"), (["--dependents=transitive"], "transitive")):
                    for ty in ("all", "test", "no_test"):
                        want = set()
                        for x in edited:
                            want |= set(c["changes"][x][keyname][ty])
                        q(["changes", "--since=HEAD", "--target-type", ty] + flag, [lab(g, x) for x in want], f"changes-{keyname}-{ty}")
                hist.append((f, ran))
        return c, bad, n, hist

    with ThreadPoolExecutor(core.NCPU) as ex:
        for c, bad, n, hist in ex.map(one, enumerate(graphs)):
            chk.cov["evaluations"] += n
            chk.cov["traces_validated_against_impl"] += 1
            chk.distinct.add(json.dumps(c["g"], sort_keys=True))
            for what, args, exp, got in bad:
                chk.violation(f"query:{what}", f"`grog {' '.join(args)}` on graph {json.dumps(c['g'])}: expected {exp}, got {got}", {"graph": c["g"], "args": args, "expected": exp, "got": got})
    chk.cov["distinct_nontrivial"] = chk.cov["evaluations"]
    chk.sample({"graph": graphs[0]["g"], "deps": graphs[0]["deps"], "tdeps": graphs[0]["tdeps"], "owners": graphs[0]["owners"]})
    chk.assumptions += ["dependencies are taken on the node graph: an alias is printed as a node of its own", "--target-type is applied to targets only (aliases pass), as the implementation does; the property does not say"]
