"""C10 At most one grog build runs in a workspace; stale locks are recovered.
Spec: spec/Locker.tla (one action per file-system call of Lock/Unlock, 2 and 3 processes, crashes between any two steps,
every initial lock file; Mutex, NoForeignUnlink, HolderOwnsPath; AllFinish under fairness).
Binding B2: TLC-generated schedules are stepped through real OS processes running the repository's Lock/Unlock (gates before
every file-system call, SIGKILL for crashes); after every step the set of processes inside the critical section, the
presence of the lock file and the gate each process waits at must equal the specification's state."""
import json, os, random, signal, socket, subprocess, threading, time
from concurrent.futures import ThreadPoolExecutor
from vlib import core

GATE_OF = {"start": "lock.open", "flock": "lock.flock", "verify": "lock.verify", "write": "lock.write", "read": "lock.read", "sleep": "lock.sleep",
           "held": "cs", "unlocking": "unlock.remove", "closing": "unlock.close"}


class Proc:
    def __init__(self, name, popen):
        self.name, self.popen, self.conn, self.buf = name, popen, None, b""
        self.events, self.gate, self.exited = [], None, False

    def read_until_gate(self, timeout=20):
        """Reads events until the next gate request (or EOF = the process finished / died)."""
        self.gate = None
        self.conn.settimeout(timeout)
        while True:
            while b"\n" in self.buf:
                line, self.buf = self.buf.split(b"\n", 1)
                m = json.loads(line)
                if "gate" in m:
                    self.gate = m["gate"]
                    return
                if "event" in m:
                    self.events.append(m)
            try:
                chunk = self.conn.recv(65536)
            except socket.timeout:
                raise core.Infra(f"process {self.name} sent nothing for {timeout}s (waiting for its next gate)")
            if not chunk:
                self.exited = True
                return
            self.buf += chunk

    def release(self):
        self.conn.sendall(b"go\n")


def replay_schedule(hbin, schedule, base, free_tail_seed=None):
    """Steps one TLC-generated schedule through real processes. Returns a list of mismatches."""
    os.makedirs(base)
    root, ws = os.path.join(base, "root"), os.path.join(base, "ws")
    os.makedirs(ws)
    sock_path = os.path.join(base, "ctl.sock")
    srv = socket.socket(socket.AF_UNIX, socket.SOCK_STREAM)
    srv.bind(sock_path)
    srv.listen(8)
    init = schedule[0]["init"]
    steps = schedule[1:]
    names = sorted(steps[0]["pcs"].keys()) if steps else []
    # the lock file path as the repository computes it
    import hashlib
    lockdir = os.path.join(root, hashlib.sha256(ws.encode()).hexdigest()[:16] + "-" + os.path.basename(ws))
    lockfile = os.path.join(lockdir, "lockfile")
    os.makedirs(lockdir, exist_ok=True)
    if init == "deadpid":
        open(lockfile, "w").write("999999")
    elif init == "empty":
        open(lockfile, "w").write("")
    elif init == "garbage":
        open(lockfile, "w").write("not a pid")
    procs = {}
    mism = []
    try:
        for n in names:
            env = dict(os.environ, GROG_VERIF_CTL=sock_path, GROG_VERIF_ID=n)
            po = subprocess.Popen([hbin, "lockproc", root, ws], env=env, stdout=subprocess.DEVNULL, stderr=subprocess.PIPE)
            procs[n] = Proc(n, po)
        srv.settimeout(20)
        for _ in names:
            try:
                conn, _a = srv.accept()
            except socket.timeout:
                raise core.Infra("a lock process did not connect to the controller")
            conn.settimeout(20)
            buf = b""
            while b"\n" not in buf:
                buf += conn.recv(4096)
            line, rest = buf.split(b"\n", 1)
            hello = json.loads(line)
            p = procs[hello["id"]]
            p.conn, p.buf = conn, rest
        for p in procs.values():
            p.read_until_gate()
        in_cs = set()
        for i, st in enumerate(steps):
            p = procs[st["p"]]
            if st["a"] == "crash":
                p.popen.kill()
                p.popen.wait()
                p.exited = True
                in_cs.discard(p.name)
            else:
                if p.exited or p.gate != st["a"]:
                    mism.append(dict(step=i, kind="gate-mismatch", proc=p.name, model=st["a"], real=("exited" if p.exited else p.gate)))
                    break
                before = len(p.events)
                p.release()
                p.read_until_gate()
                for e in p.events[before:]:
                    if e["event"] == "cs.enter":
                        in_cs.add(p.name)
                    elif e["event"] == "cs.exit":
                        in_cs.discard(p.name)
                    elif e["event"] in ("proc.lockerror", "proc.unlockerror"):
                        mism.append(dict(step=i, kind="lock-error", proc=p.name, err=e.get("err")))
            # compare with the specification's state after this step
            model_holders = set(st["holders"])
            real_holders = set(in_cs)
            if len(real_holders) > 1:
                mism.append(dict(step=i, kind="two-holders", real=sorted(real_holders), model=sorted(model_holders)))
                break
            if real_holders != model_holders:
                mism.append(dict(step=i, kind="holders-differ", real=sorted(real_holders), model=sorted(model_holders)))
                break
            if os.path.exists(lockfile) != st["file"]:
                mism.append(dict(step=i, kind="lockfile-presence", real=os.path.exists(lockfile), model=st["file"]))
                break
            for n, q in procs.items():
                want = st["pcs"][n]
                if want in ("done", "crashed"):
                    if not q.exited:
                        mism.append(dict(step=i, kind="process-should-have-finished", proc=n, model=want, real=q.gate))
                elif q.exited or q.gate != GATE_OF[want]:
                    mism.append(dict(step=i, kind="next-gate-differs", proc=n, model=GATE_OF[want], real=("exited" if q.exited else q.gate)))
            if mism:
                break
        if free_tail_seed is not None and not mism:
            rng = random.Random(free_tail_seed)
            for _ in range(400):
                live = [q for q in procs.values() if not q.exited and q.gate]
                if not live:
                    break
                q = rng.choice(live)
                before = len(q.events)
                q.release()
                q.read_until_gate()
                for e in q.events[before:]:
                    if e["event"] == "cs.enter":
                        in_cs.add(q.name)
                    elif e["event"] == "cs.exit":
                        in_cs.discard(q.name)
                    elif e["event"] in ("proc.lockerror", "proc.unlockerror"):
                        mism.append(dict(step=len(steps), kind="lock-error", proc=q.name, err=e.get("err")))
                if len(in_cs) > 1:
                    mism.append(dict(step=len(steps), kind="two-holders", real=sorted(in_cs), model="at most one (free continuation after the goal prefix)"))
                    break
            else:
                mism.append(dict(step=len(steps), kind="no-termination", real="processes still stepping after 400 releases", model="everybody finishes"))
        return mism
    finally:
        for q in procs.values():
            try:
                q.popen.kill()
                q.popen.wait(timeout=5)
            except Exception:
                pass
            if q.conn:
                q.conn.close()
        srv.close()


def generate(tmp, name, procs, crashes, num, depth, seed):
    cfg = (f"SPECIFICATION GSpec\nCONSTANTS\n  Procs <- {procs}\n  Protocol = \"flock\"\n  InitFiles <- AllInit\n  MaxCrashes = {crashes}\n  MaxIno = 8\n  AllowClean = FALSE\n"
           "  Goal = \"none\"\nINVARIANTS Emit\nCHECK_DEADLOCK FALSE\n")
    res = core.tlc(os.path.join(tmp, "gen_" + name), "LockerGen.tla", "g.cfg", workers=1, timeout=900, files={"g.cfg": cfg},
                   extra=["-simulate", f"num={num}", "-depth", str(depth), "-seed", str(seed)], heap="4g")
    hs = []
    for line in res.out.splitlines():
        if line.startswith('<<"TRACEJSON", '):
            hs.append(json.loads(json.loads(line[len('<<"TRACEJSON", '):-2])))
    if not hs:
        raise core.Infra("no lock schedules generated:\n" + res.out[-1500:])
    return res, hs


GOALS = ["verify-fails", "verify-sees-other-file", "flock-blocked", "acquire-after-holder-crash", "crash-between-flock-and-write", "two-inodes-open",
         "second-acquires-after-unlock", "waiter-sees-unlinked-file"]


def goal_schedule(tmp, goal, procs, crashes, init):
    """The shortest schedule (TLC breadth-first) whose last step takes the named branch of the protocol."""
    cfg = (f"SPECIFICATION GSpec\nCONSTANTS\n  Procs <- {procs}\n  Protocol = \"flock\"\n  InitFiles = {{\"{init}\"}}\n  MaxCrashes = {crashes}\n  MaxIno = 8\n  AllowClean = FALSE\n"
           f"  Goal = \"{goal}\"\nINVARIANTS GoalInv\nCONSTRAINT GoalBound\nCHECK_DEADLOCK FALSE\n")
    res = core.tlc(os.path.join(tmp, f"goal_{goal}_{procs}_{init}"), "LockerGen.tla", "g.cfg", workers=1, timeout=600, files={"g.cfg": cfg}, heap="8g")
    for line in res.out.splitlines():
        if line.startswith('<<"TRACEJSON", '):
            return res, json.loads(json.loads(line[len('<<"TRACEJSON", '):-2]))
    return res, None


def finish_freely(hbin, prefix, base, seed):
    """Replays a goal prefix with full state comparison, then lets the remaining processes run to the end in a seeded order
    with the mutual-exclusion oracle only (nobody may be inside the critical section together with somebody else)."""
    return replay_schedule(hbin, prefix, base, free_tail_seed=seed)


def run(chk, tmp, replay=None):
    quick = chk.tier == "quick"
    for name, procs, crashes in (("2 processes", "P2", 2), ("3 processes", "P3", 2 if quick else 3)):
        cfg = f"SPECIFICATION Spec\nCONSTANTS\n  Procs <- {procs}\n  Protocol = \"flock\"\n  InitFiles <- AllInit\n  MaxCrashes = {crashes}\n  MaxIno = 8\n  AllowClean = FALSE\nINVARIANTS Mutex NoForeignUnlink HolderOwnsPath\n"
        res = core.tlc(os.path.join(tmp, "ex_" + procs), "LockerMC.tla", "l.cfg", timeout=1500, files={"l.cfg": cfg}, heap="16g")
        core.tlc_must_pass(res, "Locker " + name)
        chk.add_tlc(f"Locker exhaustive, {name}, <= {crashes} crashes, every initial lock file, every interleaving of file-system steps: Mutex, NoForeignUnlink, HolderOwnsPath", res)
    cfg = "SPECIFICATION FairSpec\nCONSTANTS\n  Procs <- P2\n  Protocol = \"flock\"\n  InitFiles <- AllInit\n  MaxCrashes = 1\n  MaxIno = 8\n  AllowClean = FALSE\nPROPERTIES AllFinish\n"
    res = core.tlc(os.path.join(tmp, "ex_live"), "LockerMC.tla", "l.cfg", timeout=1500, files={"l.cfg": cfg}, heap="8g")
    core.tlc_must_pass(res, "Locker liveness")
    chk.add_tlc("Locker liveness (2 processes, 1 crash): a waiter proceeds once the holder releases or dies, a stale file never blocks (AllFinish under weak fairness)", res)
    if not quick:
        # beyond the listed property: `grog clean` removes the lock file under a holder without taking the lock; TLC shows that
        # mutual exclusion between builds is then lost (recorded as an observation of the extended specification, not a verdict)
        cfg = "SPECIFICATION Spec\nCONSTANTS\n  Procs <- P2\n  Protocol = \"flock\"\n  InitFiles = {\"nofile\"}\n  MaxCrashes = 0\n  MaxIno = 8\n  AllowClean = TRUE\nINVARIANTS Mutex\n"
        res = core.tlc(os.path.join(tmp, "ex_clean"), "LockerMC.tla", "l.cfg", timeout=600, files={"l.cfg": cfg})
        chk.cov["observation_grog_clean_under_a_holder"] = {"mutex_violated_in_model": "Mutex" in res.violated, "distinct_states": res.distinct,
                                                             "note": "outside C10 (which speaks of builds): a concurrent `grog clean` lets a second build acquire a fresh lock file"}
    # unbounded in processes, inodes, crashes and steps: the inductive invariant of the flock protocol, checked by the TLA+ proof system
    n, wall = core.tlapm(os.path.join(tmp, "proof"), "LockerProof.tla")
    chk.cov["proofs"] = [{"module": "LockerProof.tla", "theorem": "Spec => []MutexAlt (Protocol = flock, no `grog clean`), any set of processes, any MaxIno >= 1, any number of crashes",
                          "obligations_proved": n, "wall_s": wall, "tool": "tlapm (SMT, Zenon, Isabelle, PTL back ends)"}]
    hbin = core.build_harness(tmp)
    batches = [("2p", "P2", 1, 60 if quick else 600, 70), ("3p", "P3", 2, 40 if quick else 600, 110)]
    chk.cov["rule"] = ("one evaluation = one TLC-generated schedule (which process performs its next file-system call, or is killed) stepped through real OS processes; "
                       "distinct = distinct schedule; non-trivial = at least two processes reach the lock file")
    chk.cov["bounds"] = {"exhaustive": "2 and 3 processes, up to 2 (3) crashes, initial lock file none / dead pid / empty / garbage", "replayed": "seeded TLC -simulate schedules to termination"}
    for tag, procs, crashes, num, depth in batches:
        res, hs = generate(tmp, tag, procs, crashes, max(1, num // 2), depth, chk.seed * 10 + len(tag))
        chk.add_tlc(f"LockerGen simulate {tag}", res, schedules=len(hs))

        def one(ih):
            i, h = ih
            return replay_schedule(hbin, h, os.path.join(tmp, f"lk_{tag}_{i}"))

        with ThreadPoolExecutor(min(core.NCPU, 12)) as ex:
            results = list(ex.map(one, enumerate(hs)))
        for h, mism in zip(hs, results):
            chk.cov["traces_validated_against_impl"] += 1
            sched = tuple((s["p"], s["a"]) for s in h[1:])
            chk.count(sched, nontrivial=len({s["p"] for s in h[1:] if s["a"] == "lock.open"}) >= 2)
            for m in mism:
                chk.violation(f"lock:{m['kind']}", f"schedule {[(s['p'], s['a']) for s in h[1:m['step'] + 1]]} (initial lock file: {h[0]['init']}): {json.dumps(m)}", {"schedule": h, "mismatch": m})
        chk.sample({"init": hs[0][0]["init"], "schedule": [(s["p"], s["a"]) for s in hs[0][1:30]]})
    # coverage goals: one shortest schedule per protocol branch x process count x initial file, replayed with state comparison
    # and then continued freely under the mutual-exclusion oracle
    goal_jobs = []
    for goal in GOALS:
        for procs, crashes in (("P2", 1), ("P3", 1)):
            if goal == "verify-sees-other-file" and procs == "P2":
                continue   # needs a third process that creates a new lock file
            for init in (["nofile", "deadpid"] if quick else ["nofile", "deadpid", "empty", "garbage"]):
                goal_jobs.append((goal, procs, crashes, init))

    def gjob(j):
        goal, procs, crashes, init = j
        res, h = goal_schedule(tmp, goal, procs, crashes, init)
        if h is None:
            return j, res, None, None
        outs = []
        for k in range(2 if quick else 6):
            outs.append(finish_freely(hbin, h, os.path.join(tmp, f"goalrun_{goal}_{procs}_{init}_{k}"), chk.seed * 100 + k))
        return j, res, h, outs

    with ThreadPoolExecutor(min(core.NCPU, 8)) as ex:
        for j, res, h, outs in ex.map(gjob, goal_jobs):
            chk.add_tlc(f"LockerGen goal {j[0]} {j[1]} init={j[3]}: shortest schedule (BFS)", res, reached=h is not None)
            if h is None:
                continue
            for mism in outs:
                chk.cov["traces_validated_against_impl"] += 1
                chk.count((j, tuple((s["p"], s["a"]) for s in h[1:])), True)
                for m in mism:
                    chk.violation(f"lock:{m['kind']}", f"goal {j[0]} schedule {[(s['p'], s['a']) for s in h[1:]]} (initial lock file: {h[0]['init']}): {json.dumps(m)}", {"schedule": h, "mismatch": m})
    chk.assumptions += ["flock(2) semantics of the local kernel; the informational PID content is not part of the protocol", "the 1 s retry sleep is skipped under the controller (the gate before it remains)"]
