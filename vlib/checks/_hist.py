"""Shared runner for the history-engine properties (C01 C02 C13 C14 C15 and the CLI part of C05)."""
from vlib import core, build_engine as be

BASE = ["EditInput", "EditCmd", "Build"]

PLANS = {
 # property: (exhaustive runs, replay batches); a batch = (label, template, acts, cmds, modes, sels, depth, num_quick, num_thorough, literal_clean)
 "C01": dict(
    ex=[("chain", "chain", BASE + ["Taint", "Perturb", "ToggleNoCache", "BuildCacheOff"], ["copy", "const", "fail"], ["all"], ["ALL"], 4, 5, ["TypeOK", "CleanEq"]),
        ("alias", "alias", BASE + ["Retarget"], ["copy", "const"], ["all"], ["ALL", "c"], 4, 5, ["TypeOK", "CleanEq"])],
    rp=[("chain edits", "chain", BASE + ["Taint", "Perturb", "EditFingerprint"], ["copy", "const", "copy2", "fail"], ["all"], ["ALL", "c"], 9, 12, 150, True),
        ("alias hop + glob", "alias", BASE + ["Retarget", "Taint"], ["copy", "const", "copy2"], ["all"], ["ALL", "c"], 9, 12, 150, True),
        ("diamond shift/rename/platform", "diamond", BASE + ["EditShift", "EditSwap", "EditOutputs", "ChangePlatform", "EditFingerprint", "Perturb"], ["copy", "copy2", "const"], ["all"], ["ALL", "d"], 9, 12, 150, True)]),
 "C02": dict(
    ex=[("chain", "chain", BASE + ["Taint", "Perturb", "ToggleNoCache", "DropBlob"], ["copy", "const", "fail"], ["all"], ["ALL"], 4, 5, ["TypeOK", "NoOpRebuild", "EditLocality", "AtMostOncePerBuild"])],
    rp=[("diamond perturbations", "diamond", BASE + ["Perturb", "DropBlob"], ["copy", "const"], ["all"], ["ALL", "d"], 9, 14, 200, False),
        ("chain no-op/locality/cutoff/relocation", "chain", BASE + ["Perturb", "DropBlob", "EditFingerprint", "Relocate"], ["copy", "const", "copy2"], ["all", "minimal"], ["ALL", "c", "b"], 9, 12, 150, False),
        ("alias", "alias", BASE + ["Retarget", "Perturb"], ["copy", "const"], ["all"], ["ALL", "c"], 9, 8, 100, False)]),
 "C13": dict(
    ex=[("chain", "chain", ["EditInput", "Build", "Taint", "ToggleNoCache", "BuildCacheOff"], ["copy", "const"], ["all"], ["ALL", "b"], 4, 5,
         ["TypeOK", "TaintConsumed", "TaintForces", "NoCacheAlwaysRuns", "DisabledCacheRunsAll", "CleanEq"])],
    rp=[("chain taint/no-cache/cache-off", "chain", ["EditInput", "EditCmd", "Build", "Taint", "ToggleNoCache", "BuildCacheOff"], ["copy", "const", "fail"], ["all"], ["ALL", "c", "b"], 9, 16, 250, False),
        ("diamond taint/no-cache/cache-off", "diamond", ["EditInput", "Build", "Taint", "ToggleNoCache", "BuildCacheOff"], ["copy", "const"], ["all"], ["ALL", "d"], 9, 12, 150, False)]),
 "C14": dict(
    ex=[("check", "check", BASE + ["BreakExt", "Taint"], ["copy", "fail", "noest", "unest", "omit"], ["all"], ["ALL"], 4, 5, ["TypeOK", "SuccessImpliesPost", "FailingCheckForcesExec", "CleanEq"])],
    rp=[("check targets", "check", BASE + ["BreakExt", "Taint"], ["copy", "fail", "noest", "unest", "omit", "slow"], ["all"], ["ALL", "n"], 9, 20, 300, False),
        ("chain missing outputs/timeouts", "chain", BASE, ["copy", "omit", "slow", "fail"], ["all"], ["ALL"], 6, 8, 100, False)]),
 "C15": dict(
    ex=[("chain", "chain", BASE + ["Taint", "ToggleNoCache", "Perturb"], ["copy", "const", "fail"], ["minimal"], ["ALL", "c"], 4, 5, ["TypeOK", "AtMostOncePerBuild", "TaintConsumed", "NoCacheAlwaysRuns"])],
    rp=[("chain minimal", "chain", BASE + ["Taint", "ToggleNoCache", "Perturb"], ["copy", "const", "fail"], ["minimal"], ["ALL", "c", "b"], 9, 14, 200, False),
        ("alias minimal", "alias", BASE + ["Retarget", "Taint"], ["copy", "const"], ["minimal"], ["ALL", "c"], 9, 10, 150, False),
        ("diamond minimal", "diamond", BASE + ["Taint", "Perturb"], ["copy", "const"], ["minimal"], ["ALL", "d"], 9, 10, 150, False)]),
 # C04 at the level of the CLI: cache faults (missing blobs, unreadable results, outputs deleted or replaced) in both modes; the check
 # reports builds that do not return or die from an internal crash (everything else about these histories belongs to C02 / C15)
 "C04": dict(
    ex=[],
    rp=[("diamond cache faults all/minimal", "diamond", BASE + ["DropBlob", "Perturb", "CorruptResults"], ["copy", "fail"], ["all", "minimal"], ["ALL", "d"], 9, 10, 150, False),
        ("alias cache faults all/minimal", "alias", BASE + ["DropBlob", "Perturb", "CorruptResults", "Retarget"], ["copy"], ["all", "minimal"], ["ALL", "c"], 9, 6, 100, False)]),
 "C03": dict(
    ex=[],
    rp=[("diamond all/minimal, 1..4 workers", "diamond", BASE + ["Taint", "ToggleNoCache", "Perturb"], ["copy", "const", "fail"], ["all", "minimal"], ["ALL", "d"], 9, 16, 200, False),
        ("alias all/minimal", "alias", BASE + ["Retarget", "ToggleNoCache"], ["copy", "const"], ["all", "minimal"], ["ALL", "c"], 9, 8, 100, False)]),
 "C05": dict(
    ex=[("chain", "chain", BASE, ["copy", "fail", "omit"], ["all"], ["ALL"], 4, 5, ["TypeOK", "CleanEq", "SuccessImpliesPost"])],
    rp=[("diamond failures", "diamond", BASE, ["copy", "fail", "omit", "slow", "const"], ["all"], ["ALL", "d"], 9, 12, 150, False),
        ("check failures", "check", BASE + ["BreakExt"], ["copy", "fail", "noest", "omit"], ["all"], ["ALL"], 9, 8, 100, False)]),
}


ALLEDITS = ["EditInput", "EditCmd", "Build", "Perturb", "DropBlob", "Taint", "Relocate", "ToggleNoCache", "EditFingerprint", "EditShift", "EditSwap", "EditOutputs", "ChangePlatform"]
# systematic batches: every history  full build ; k non-build actions ; build  (k = depth - 2), enumerated by TLC in model-checking mode
SYS = {
 "C01": [("diamond every edit", "diamond", ALLEDITS, ["copy", "const", "copy2"], ["all"], ["ALL", "d"], 3, 4, True),
         ("alias every edit", "alias", BASE + ["Retarget", "Taint", "EditFingerprint"], ["copy", "const"], ["all"], ["ALL", "c"], 3, 4, True)],
 "C02": [("diamond every edit/perturbation", "diamond", ALLEDITS, ["copy", "const"], ["all"], ["ALL", "d"], 3, 4, False),
         ("chain minimal-mode locality", "chain", BASE + ["Perturb", "DropBlob"], ["copy", "const"], ["minimal"], ["ALL", "c"], 3, 4, False),
         # targets with output checks: a check that passes must not cause an execution (a no-op rebuild runs nothing)
         ("check targets: passing checks cause no execution", "check", BASE + ["BreakExt", "Taint"], ["copy", "noest"], ["all"], ["ALL", "n"], 3, 4, False)],
 "C13": [("diamond taint/no-cache/cache-off", "diamond", ["EditInput", "Build", "Taint", "ToggleNoCache", "BuildCacheOff"], ["copy", "const"], ["all"], ["ALL", "d"], 3, 4, False)],
 "C14": [("check targets", "check", BASE + ["BreakExt", "Taint"], ["copy", "fail", "noest", "unest", "omit"], ["all"], ["ALL", "n"], 3, 4, False),
         ("diamond: declared file, sub-directory and directory outputs left out, timeouts", "diamond", BASE, ["copy", "omit", "slow"], ["all"], ["ALL"], 3, 4, False)],
 "C15": [("diamond minimal", "diamond", BASE + ["Taint", "ToggleNoCache", "Perturb", "EditFingerprint"], ["copy", "const", "fail"], ["minimal"], ["ALL", "d"], 3, 4, False),
         ("alias minimal", "alias", BASE + ["Retarget", "Taint", "ToggleNoCache"], ["copy", "const"], ["minimal"], ["ALL", "c"], 3, 4, False)],
 "C05": [("diamond failures", "diamond", BASE, ["copy", "fail", "omit", "slow"], ["all"], ["ALL", "d"], 3, 4, False),
         ("check failures", "check", BASE + ["BreakExt", "Taint"], ["copy", "fail", "noest", "unest", "omit"], ["all"], ["ALL", "n"], 3, 4, False)],
 "C04": [("diamond cache faults", "diamond", BASE + ["Perturb", "DropBlob", "CorruptResults"], ["copy", "fail"], ["all", "minimal"], ["ALL", "d"], 3, 4, False)],
 "C03": [("diamond all/minimal", "diamond", BASE + ["Taint", "ToggleNoCache", "Perturb", "DropBlob"], ["copy", "const"], ["all", "minimal"], ["ALL", "d"], 3, 4, False)],
}

# canonical batches (TLC model-checking mode over GrogBuildGen with Canonical = style): full build ; k actions ; build, where the
# actions are "kinds" = one of each kind in the fixed order edit, taint, break, drop blob, perturb, platform, relocate, or
# "sink" = increasing in (kind, target), edits only of the last target, perturbations only deletions. depth 0 = not in that tier.
CANON = {
 "C15": [("diamond minimal, fan-out: both middle targets edited, the shared dependency's blob dropped and its output deleted (x6 runs, 2-4 workers)", "diamond", ["EditInput", "Build", "DropBlob", "Perturb"], ["copy"], ["minimal"], ["ALL"], "fan*6", 6, 6, False),
         ("diamond minimal, fan-out, three actions", "diamond", ["EditInput", "Build", "DropBlob", "Perturb"], ["copy"], ["minimal"], ["ALL"], "fan*6", 5, 5, False),
         ("pair minimal (two outputs; a bin_output only): edit of the sink, dropped blobs, deleted outputs", "pair", ["EditInput", "Build", "DropBlob", "Perturb"], ["copy"], ["minimal"], ["ALL"], "sink", 5, 6, False),
         ("diamond minimal: edit of the sink, dropped blobs, deleted outputs", "diamond", ["EditInput", "Build", "DropBlob", "Perturb"], ["copy"], ["minimal"], ["ALL"], "sink", 6, 7, False),
         ("alias minimal: edit of the sink, dropped blobs, deleted outputs", "alias", ["EditInput", "Build", "DropBlob", "Perturb"], ["copy"], ["minimal"], ["ALL"], "sink", 0, 6, False),
         ("diamond minimal: edit, dropped blob, perturbation", "diamond", ["EditInput", "Build", "DropBlob", "Perturb"], ["copy"], ["minimal"], ["ALL"], "kinds", 0, 5, False),
         ("alias minimal: edit, dropped blob, perturbation", "alias", ["EditInput", "Build", "DropBlob", "Perturb"], ["copy"], ["minimal"], ["ALL", "c"], "kinds", 0, 5, False)],
 "C04": [("diamond minimal, fan-out: both middle targets edited, the shared dependency's blob dropped and its output deleted (x6 runs, 2-4 workers)", "diamond", ["EditInput", "Build", "DropBlob", "Perturb"], ["copy"], ["minimal"], ["ALL"], "fan*6", 6, 6, False),
         ("diamond minimal: edit of the sink, unreadable results, dropped blobs, deleted outputs", "diamond", ["EditInput", "Build", "CorruptResults", "DropBlob", "Perturb"], ["copy"], ["minimal"], ["ALL"], "sink", 6, 7, False),
         ("diamond all: edit of the sink, unreadable results, dropped blobs, deleted outputs", "diamond", ["EditInput", "Build", "CorruptResults", "DropBlob", "Perturb"], ["copy"], ["all"], ["ALL"], "sink", 5, 6, False)],
 "C02": [("diamond: edit, dropped blob, perturbation, relocation", "diamond", ["EditInput", "Build", "DropBlob", "Perturb", "Relocate"], ["copy"], ["all"], ["ALL"], "kinds", 0, 6, False),
         ("diamond: edit of the sink, dropped blobs, deleted outputs", "diamond", ["EditInput", "Build", "DropBlob", "Perturb"], ["copy"], ["all"], ["ALL"], "sink", 0, 6, False)],
 "C01": [("diamond: edit, taint, perturbation", "diamond", ["EditInput", "Build", "Taint", "Perturb"], ["copy"], ["all"], ["ALL"], "kinds", 0, 5, True)],
}

# shaped batches: every history of the given shape (B = build, A = any other enabled action; the first build is the full one)
PAIR_Q = ["EditSwap", "Build", "ToggleNoCache", "Taint"]
PAIR_T = ["EditInput", "EditSwap", "EditCmd", "Build", "ToggleNoCache", "Taint"]
# a target with two outputs (one per input), its outputs exchanged by exchanging its inputs; cached, no-cache and tainted; both
# completion orders of the two output digests (the second run delays the first output's digest in every other build: schedules the
# pool may produce).
# (label, template, quick (acts, shape), thorough [(acts, shape), ...], commands, modes, selections, literal clean build)
TOOL = ("chain: a tainted target whose forced run leaves its declared output out (broken undeclared tool, same cache key) keeps its taint and is attempted again",
        "chain", (["Build", "Taint", "BreakTool"], "BAABB:kinds:nodelay"), [(["Build", "Taint", "BreakTool", "EditInput"], "BAAABB:kinds:nodelay")], ["copy"], ["all"], ["ALL"], False)
SHAPES = {
 "C05": [TOOL],
 "C01": [("pair: literally declared inputs that disappear and reappear under the other name", "pair", None, [(["EditInput", "EditAbsent", "Build"], "BAABAAB:first:nodelay")], ["copy"], ["all"], ["ALL"], False),
         ("pair: two outputs exchanged / no-cache / taint", "pair", (PAIR_Q, "BABAB"), [(PAIR_T, "BABAB"), (PAIR_Q, "BAABAB")], ["copy", "const"], ["all"], ["ALL"], True)],
 "C02": [("pair: two outputs exchanged / no-cache / taint", "pair", (PAIR_Q, "BABAB"), [(PAIR_T, "BABAB"), (PAIR_Q, "BAABAB")], ["copy", "const"], ["all"], ["ALL"], False)],
 "C13": [TOOL, ("check targets: a tainted target whose forced run fails its check keeps its taint", "check", (["EditCmd", "Build", "Taint", "BreakExt"], "BABAAB:kinds:nodelay"),
          [(["EditCmd", "Build", "Taint", "BreakExt"], "BABAAB:kinds:nodelay")], ["copy", "noest"], ["all"], ["ALL"], False),
         ("pair: two outputs exchanged / no-cache / taint", "pair", (PAIR_Q, "BABAB"), [(PAIR_T + ["BuildCacheOff"], "BABAB"), (PAIR_Q, "BAABAB")], ["copy", "const"], ["all"], ["ALL"], False)],
 "C15": [("pair minimal: two outputs exchanged / no-cache / taint", "pair", (PAIR_Q, "BABAB"), [(PAIR_T, "BABAB"), (PAIR_Q, "BAABAB")], ["copy", "const"], ["minimal"], ["ALL"], False)],
}


SYS_CAP = 2000


def run(chk, tmp, prop):
    plan = PLANS[prop]
    quick = chk.tier == "quick"
    for name, template, acts, cmds, modes, sels, dq, dt, invs in plan["ex"]:
        be.exhaustive(chk, tmp, name, template, acts, cmds, modes, sels, dq if quick else dt, invariants=invs, timeout=3000)
    grog = core.build_grog(tmp)
    chk.cov["bounds"] = {"exhaustive_depth": [p[6 if quick else 7] for p in plan["ex"]], "templates": sorted({p[1] for p in plan["rp"]})}
    chk.cov["rule"] = ("one evaluation = one TLC-generated history (edits, taints, perturbations, cache faults, builds) stepped through the real grog binary with the abstract "
                       "state compared after every action; distinct = distinct action sequence; non-trivial = at least two builds")
    for j, (label, template, acts, cmds, modes, sels, depth, nq, nt, lit) in enumerate(plan["rp"]):
        res, hs = be.generate(tmp, f"g{j}", template, acts, cmds, modes, sels, depth, max(1, (nq if quick else nt) // 2), chk.seed * 100 + j)
        chk.add_tlc(f"GrogBuildGen simulate: {label}", res, histories=len(hs))
        be.run_histories(chk, tmp, grog, hs, prop, lit, label)
    for j, (label, template, acts, cmds, modes, sels, dq, dt, lit) in enumerate(SYS.get(prop, [])):
        res, hs = be.generate(tmp, f"s{j}", template, acts, cmds, modes, sels, dq if quick else dt, 0, chk.seed, systematic=True)
        total = len(hs)
        if total > SYS_CAP:      # a seeded stride through the enumeration keeps the thorough tier within minutes
            stride = -(-total // SYS_CAP)
            hs = hs[chk.seed % stride::stride]
        chk.add_tlc(f"GrogBuildGen systematic (full build; {(dq if quick else dt) - 2} action(s); build): {label}", res, histories=len(hs), enumerated=total)
        be.run_histories(chk, tmp, grog, hs, prop, lit, "systematic " + label)
    for j, (label, template, acts, cmds, modes, sels, style, dq, dt, lit) in enumerate(CANON.get(prop, [])):
        if (dq if quick else dt) == 0:
            continue
        style, _, reps = style.partition("*")
        res, hs = be.generate(tmp, f"c{j}", template, acts, cmds, modes, sels, dq if quick else dt, 0, chk.seed, systematic=True, canonical=style)
        chk.add_tlc(f"GrogBuildGen canonical/{style} (full build; {(dq if quick else dt) - 2} actions; build): {label}", res, histories=len(hs))
        if reps:      # schedule-dependent shapes: every history several times, with 2, 3 and 4 workers
            hs = [h for h in hs for _ in range(int(reps))]
            # (every other run holds the per-target output lock for 40 ms while the outputs are being loaded: the other dependant queues up)
            be.run_histories(chk, tmp, grog, hs, prop, lit, "canonical " + label,
                             opts_of=lambda i: {"workers": 2 + i % 3, "hash": ["", "sha256"][i % 2], "delay": "outload=40" if i % 2 else ""})
            continue
        be.run_histories(chk, tmp, grog, hs, prop, lit, "canonical " + label)
    for j, (label, template, qs, ts, cmds, modes, sels, lit) in enumerate(SHAPES.get(prop, [])):
        for jj, (acts, shape) in enumerate(([qs] if qs else []) if quick else ts):
            shape, canon, nodelay = (shape.split(":") + ["", ""])[:3]
            res, hs = be.generate(tmp, f"h{j}_{jj}", template, acts, cmds, modes, sels, 0, 0, chk.seed, shape=shape, canonical=canon or "off")
            chk.add_tlc(f"GrogBuildGen shaped ({shape}): {label}", res, histories=len(hs))
            be.run_histories(chk, tmp, grog, hs, prop, lit, f"shaped {shape} {label}")
            if nodelay:
                continue
            be.run_histories(chk, tmp, grog, hs, prop, False, f"shaped {shape}, first output digest delayed in every other build: {label}",
                             opts_of=lambda i: {"workers": 1 + i % 4, "hash": ["", "sha256"][i % 2], "delay_alt": "outhash.pr_p_o0/1=60,outwrite.pr_p_o0/1=60"})
    if prop == "C13":
        # the taint marker is cleared by a goroutine nobody waits for: with a slow backend Delete (modelled by a delay at the
        # hook in front of it) the process may exit first; the specification says the successful execution consumes the taint
        res, hs = be.generate(tmp, "gd", "chain", ["EditInput", "Build", "Taint"], ["copy", "const"], ["all"], ["ALL", "c"], 3, 0, chk.seed, systematic=True)
        chk.add_tlc("GrogBuildGen systematic (taint, slow marker deletion)", res, histories=len(hs))
        be.run_histories(chk, tmp, grog, hs, prop, False, "systematic taint with slow clear", opts_of=lambda i: {"workers": 2, "hash": "", "delay": "taint.clear=1200"})
    chk.assumptions += ["generated commands are deterministic functions of their declared inputs and dependency outputs",
                        "histories beyond the exhaustive depth are TLC -simulate samples (seeded)",
                        "one package, the templates chain / diamond / alias+glob / check; file, sub-directory and directory outputs"]
