"""C08 Remote cache is a write-through / read-through mirror shared across machines.
Spec: spec/Remote.tla (two machines, local caches, one remote store, builds with and without the remote, edits that keep the output,
objects vanishing from the remote, bounded Get/Put/Head faults; NoDanglingRemote, SuccessMeansStored).
Binding B2: TLC-generated behaviours are stepped through the real CLI: machine = separate GROG_ROOT on the same workspace identity,
remote = the real S3Cache + RemoteWrapper over a directory-backed S3 client (verif build) with the fault plan of each step; after
every step the contents of both local caches and of the remote store, whether the command ran, and the exit status are compared
with the specification's state; the remote store is audited (results decode, references resolve) and the order of remote Puts is
validated against CacheOrderTrace."""
import json, os, re, shutil, subprocess
from concurrent.futures import ThreadPoolExecutor
from vlib import core
from vlib.checks.c07 import audit

OPS = ["get-result", "get-blob", "head-blob", "put-blob-early", "put-blob-late", "put-result-early", "put-result-late", "local-cas"]


def write_ws(ws, key, remote):
    os.makedirs(os.path.join(ws, "pkg"), exist_ok=True)
    toml = 'num_workers = 2\n'
    if remote:
        toml += '[cache]\nbackend = "s3"\n[cache.s3]\nbucket = "bkt"\nprefix = "pfx"\n'
    open(os.path.join(ws, "grog.toml"), "w").write(toml)
    gcmd = 'echo "S g" >> "$GROG_WORKSPACE_ROOT/../trace"; echo payload > g.out'
    ccmd = 'echo "S c" >> "$GROG_WORKSPACE_ROOT/../trace"; cp g.out c.out' + ("" if key == "k0" else " # edited")
    json.dump({"targets": [{"name": "g", "command": gcmd, "outputs": ["g.out"]},
                           {"name": "c", "command": ccmd, "dependencies": [":g"], "outputs": ["c.out"]}]}, open(os.path.join(ws, "pkg", "BUILD.json"), "w"))


def store_items(cachedir, keymap):
    """{b, k0, k1} present in a cache directory (local or remote layout: cas/ and target/)."""
    out = set()
    cas = os.path.join(cachedir, "cas")
    if os.path.isdir(cas) and any(not f.startswith("tmp-") for f in os.listdir(cas)):
        out.add("b")
    tdir = os.path.join(cachedir, "target")
    if os.path.isdir(tdir):
        for root, _, fs in os.walk(tdir):
            for f in fs:
                if f.startswith("tmp-"):
                    continue
                rel = os.path.relpath(os.path.join(root, f), tdir)
                for name, k in keymap.items():
                    if k == rel:
                        out.add(name)
    return out


def replay_one(grog, hbin, hist, base, audit_always=False):
    os.makedirs(base)
    ws = os.path.join(base, "ws")
    s3dir = os.path.join(base, "s3")
    os.makedirs(s3dir)
    roots = {m: os.path.join(base, "root" + m) for m in "AB"}
    keymap = {}          # k0/k1 -> real change hash
    mism = []
    key = "k0"
    import hashlib
    wsprefix = hashlib.sha256(ws.encode()).hexdigest()[:16] + "-ws"
    remote_dir = os.path.join(s3dir, "bkt", "pfx", wsprefix)
    put_traces = []
    for i, st in enumerate(hist):
        act = st["act"]
        if act["kind"] == "edit":
            key = "k1"
        elif act["kind"] == "drop":
            x = act["x"]
            if x == "b":
                shutil.rmtree(os.path.join(remote_dir, "cas"), ignore_errors=True)
            elif x in keymap:
                p = os.path.join(remote_dir, "target", keymap[x])
                if os.path.exists(p):
                    os.remove(p)
                else:
                    mism.append(dict(step=i, kind="harness-drop-missing", x=x))
            else:
                mism.append(dict(step=i, kind="harness-unknown-key", x=x))
        elif act["kind"] == "build":
            m = act["m"]
            write_ws(ws, key, act["remote"])
            out = os.path.join(ws, "pkg", "c.out")
            for o in ("g.out", "c.out"):
                if os.path.exists(os.path.join(ws, "pkg", o)):
                    os.remove(os.path.join(ws, "pkg", o))            # every build starts from a checkout without outputs
            tr = os.path.join(base, "trace")
            open(tr, "w").close()
            hook = os.path.join(base, "hook.ndjson")
            open(hook, "w").close()
            oplog = os.path.join(s3dir, "_oplog")
            before_ops = len(open(oplog).read().splitlines()) if os.path.exists(oplog) else 0
            broken = None
            if "local-cas" in act["f"]:
                # the machine's local blob directory becomes a plain file for the duration of this build (it holds no blob: model precondition)
                cdir = os.path.join(roots[m], wsprefix, "cache")
                os.makedirs(cdir, exist_ok=True)
                broken = os.path.join(cdir, "cas")
                if os.path.isdir(broken):
                    if any(not f.startswith("tmp-") for f in os.listdir(broken)):
                        mism.append(dict(step=i, kind="harness-local-cas-not-empty"))
                        break
                    shutil.rmtree(broken)
                open(broken, "w").close()
            env = dict(os.environ, GROG_ROOT=roots[m], HOME=base, GROG_VERIF_S3DIR=s3dir, GROG_VERIF_S3FAULTS=",".join(x for x in act["f"] if x != "local-cas"), GROG_VERIF_TRACE=hook,
                       AWS_ACCESS_KEY_ID="x", AWS_SECRET_ACCESS_KEY="y", AWS_REGION="us-east-1")
            try:
                p = subprocess.run([grog, "build", "//..."], cwd=ws, env=env, capture_output=True, text=True, timeout=90)
            except subprocess.TimeoutExpired:
                mism.append(dict(step=i, kind="build-hangs", act=act))
                break
            finally:
                if broken and os.path.isfile(broken):
                    os.remove(broken)
            for l in open(hook):
                try:
                    e = json.loads(l)
                except ValueError:
                    continue
                if e.get("k") == "t.lookup":
                    keymap["g0" if e["t"].endswith(":g") else key] = e["key"]
            executed = sorted({l.split()[1] for l in open(tr).read().splitlines() if l.startswith("S ")})
            ok = p.returncode == 0
            if executed != sorted(act["executed"]):
                mism.append(dict(step=i, kind="executed-differs", real=executed, model=act["executed"], act=act, tail=(p.stdout + p.stderr)[-300:]))
            if ok != act["ok"]:
                mism.append(dict(step=i, kind="status-differs", real_ok=ok, model_ok=act["ok"], act=act, tail=(p.stdout + p.stderr)[-300:]))
            if ok and (not os.path.exists(out) or open(out).read() != "payload\n"):
                mism.append(dict(step=i, kind="wrong-output", act=act))
            ops = open(oplog).read().splitlines()[before_ops:] if os.path.exists(oplog) else []
            evs = []
            for o in ops:
                parts = o.split()
                if parts[1] == "put" and parts[3] == "True":
                    k = parts[2]
                    if "/cas/" in k:
                        evs.append({"kind": "blob", "name": "b", "refs": []})
                    elif "/target/" in k:
                        evs.append({"kind": "result", "name": k.rsplit("/target/", 1)[1], "refs": ["b"]})
            pre = ["b"] if "b" in (set(hist[i - 1]["remote"]) if i > 0 else set()) else []
            if evs:
                put_traces.append({"pre": pre, "ev": evs})
        if mism:
            break
        # compare stores with the specification
        real_remote = store_items(remote_dir, keymap)
        if real_remote != set(st["remote"]):
            mism.append(dict(step=i, kind="remote-store-differs", real=sorted(real_remote), model=sorted(st["remote"]), act=act))
        for m in "AB":
            c = None
            if os.path.isdir(roots[m]):
                for d in os.listdir(roots[m]):
                    if os.path.isdir(os.path.join(roots[m], d, "cache")):
                        c = os.path.join(roots[m], d, "cache")
            real_local = store_items(c, keymap) if c else set()
            if real_local != set(st["local"][m]):
                mism.append(dict(step=i, kind="local-cache-differs", machine=m, real=sorted(real_local), model=sorted(st["local"][m]), act=act))
        if mism:
            break
    # audit of the remote store as the last successful build left it
    dangling = []
    if os.path.isdir(remote_dir) and (not mism or audit_always):
        rep = audit(hbin, remote_dir, "xxh3", base, "remote")
        for r in rep["results"]:
            if not r["decodes"]:
                dangling.append(("remote-result-does-not-decode", r["key"]))
        if rep["bad_blobs"]:
            dangling.append(("remote-blob-content-differs-from-digest", rep["bad_blobs"][:2]))
    shutil.rmtree(base, ignore_errors=True)
    return mism, dangling, put_traces


def generate(tmp, name, depth, num, seed, faults, systematic=False):
    full = "FALSE" if os.environ.get("VERIF_REMOTE_ASIS") else "TRUE"   # development aid: replay the counter-model instead
    cfg = (f"SPECIFICATION GSpec\nCONSTANTS\n  FullCheck = {full}\n  MaxFaults = {faults}\n  MaxSteps = {depth}\n  Systematic = {'TRUE' if systematic else 'FALSE'}\n"
           "INVARIANTS Emit\nCHECK_DEADLOCK FALSE\n")
    res = core.tlc(os.path.join(tmp, "gen_" + name), "RemoteGen.tla", "g.cfg", workers=1, timeout=900, files={"g.cfg": cfg},
                   extra=[] if systematic else ["-simulate", f"num={num}", "-depth", str(depth + 2), "-seed", str(seed)], heap="4g")
    hs = []
    for line in res.out.splitlines():
        if line.startswith('<<"TRACEJSON", '):
            hs.append(json.loads(json.loads(line[len('<<"TRACEJSON", '):-2])))
    if not hs:
        raise core.Infra("no remote behaviours generated:\n" + res.out[-1500:])
    return res, hs


def local_fault_behaviours(chk, tmp, grog, hbin, quick):
    """For C07: the systematic behaviours in which the local blob directory is broken during one build, replayed with the remote
    store audited whatever else happened (every visible blob must have the content its digest names)."""
    res, hs = generate(tmp, "lf", 4 if quick else 5, 0, chk.seed, 1, True)
    hs = [h for h in hs if any("local-cas" in (s["act"].get("f") or []) for s in h)]
    chk.add_tlc("RemoteGen enumerate: behaviours with a broken local blob directory during one build (tiered cache)", res, behaviours=len(hs))
    with ThreadPoolExecutor(core.NCPU) as ex:
        results = list(ex.map(lambda ih: replay_one(grog, hbin, ih[1], os.path.join(tmp, f"lf_{ih[0]}"), audit_always=True), enumerate(hs)))
    return list(zip(hs, results))


def run(chk, tmp, replay=None):
    quick = chk.tier == "quick"
    cfg = f"SPECIFICATION Spec\nCONSTANTS\n  FullCheck = TRUE\n  MaxFaults = 2\n  MaxSteps = {5 if quick else 7}\nINVARIANTS NoDanglingRemote SuccessMeansStored\nCHECK_DEADLOCK FALSE\n"
    res = core.tlc(os.path.join(tmp, "ex"), "Remote.tla", "r.cfg", timeout=1500, files={"r.cfg": cfg}, heap="16g")
    core.tlc_must_pass(res, "Remote")
    chk.add_tlc("Remote exhaustive: all orders of builds on A and B (with/without the remote), edits, vanished objects, <= 2 remote faults; NoDanglingRemote, SuccessMeansStored", res)
    grog = core.build_grog(tmp)
    hbin = core.build_harness(tmp)
    batches = [("faultfree", 6, 24 if quick else 300, 0, False), ("faults", 6, 40 if quick else 500, 2, False),
               ("systematic: build on A; action(s); build with <= 1 fault; build on B", 4 if quick else 5, 0, 1, True)]
    chk.cov["rule"] = ("one evaluation = one TLC-generated behaviour (builds on two machines, edits, dropped remote objects, fault plans) stepped through the real CLI with both local caches and the "
                       "remote store compared after every step; distinct = distinct action sequence; non-trivial = at least one build with the remote configured")
    chk.cov["bounds"] = {"model": "one target, one output blob, two keys (before/after an output-preserving edit), machines A and B", "fault_ops": OPS}
    all_puts = []
    for bi, (tag, depth, num, faults, systematic) in enumerate(batches):
        res, hs = generate(tmp, f"b{bi}", depth, max(1, num // 2), chk.seed * 10 + len(tag), faults, systematic)
        chk.add_tlc(f"RemoteGen {'enumerate' if systematic else 'simulate'} {tag}", res, behaviours=len(hs))
        with ThreadPoolExecutor(core.NCPU) as ex:
            results = list(ex.map(lambda ih: replay_one(grog, hbin, ih[1], os.path.join(tmp, f"rm_{bi}_{ih[0]}")), enumerate(hs)))
        for h, (mism, dangling, puts) in zip(hs, results):
            chk.cov["traces_validated_against_impl"] += 1
            seq = tuple((s["act"]["kind"], s["act"].get("m"), s["act"].get("remote"), tuple(s["act"].get("f", []))) for s in h)
            chk.count(seq, nontrivial=any(s["act"].get("remote") for s in h))
            all_puts += puts
            for m in mism:
                if m["kind"].startswith("harness-"):
                    raise core.Infra(f"remote harness problem: {m}")
                chk.violation(f"remote:{m['kind']}", f"after {[ (s['act']['kind'], s['act'].get('m'), s['act'].get('remote'), s['act'].get('f')) for s in h[: m['step'] + 1]]}: {json.dumps(m)[:600]}", {"behaviour": h, "mismatch": m})
            for kind, what in dangling:
                chk.violation(f"remote:{kind}", f"remote store after {len(h)} steps: {what}", {"behaviour": h})
        chk.sample([(s["act"]["kind"], s["act"].get("m"), s["act"].get("remote"), s["act"].get("f"), s["act"].get("executed")) for s in hs[0]])
    if all_puts:
        res = core.tlc(os.path.join(tmp, "order"), "CacheOrderTraceMC.tla", "o.cfg", workers=1, timeout=900,
                       files={"cache_order_traces.json": json.dumps(all_puts), "o.cfg": "SPECIFICATION Spec\nCONSTANTS\n  TraceFile <- TraceFileC\nINVARIANTS ResultClosure\nCHECK_DEADLOCK FALSE\n"}, heap="4g")
        if res.rc != 0 or "Model checking completed" not in res.out:
            raise core.Infra("remote order trace validation failed:\n" + res.out[-2000:])
        chk.add_tlc("CacheOrderTrace on the remote Put order: a result is put only after the blob it references is in the remote", res, traces=len(all_puts))
        if '<<"BROKEN"' in res.out:
            chk.violation("remote:result-put-before-its-blob", "a build put a target result into the remote store while the blob it references was not (yet) there", {"traces": all_puts[:5]})
    chk.assumptions += ["the remote is the real S3Cache + RemoteWrapper over a directory-backed S3 client (AWS SDK adapter and GCS backend not exercised)",
                        "machine B = same workspace path (the remote namespace is derived from it) with a separate GROG_ROOT; every build starts from a checkout without outputs"]

