"""C19 Graph algorithms scale polynomially, not with the number of paths.
Spec: spec/Traversal.tla (visited-set traversal; LinearWork: every edge examined at most once; on all DAGs <= N nodes and on ladders).
Binding: the real operations run on ladders / dense DAGs / chains with work counters compiled into their loops; the counted
work must stay within the specification's bound for the same graph (a deterministic count, not a stopwatch)."""
import json, os
from vlib import core

def run(chk, tmp, replay=None):
    quick = chk.tier == "quick"
    for fam, n in (("alldags", 4 if quick else 5), ("ladders", 10 if quick else 14)):
        cfg = f"SPECIFICATION Spec\nCONSTANTS\n  N = {n}\n  Family = \"{fam}\"\nINVARIANTS LinearWork EachOnce ExactResult\n"
        res = core.tlc(os.path.join(tmp, "t_" + fam), "Traversal.tla", "t.cfg", timeout=3000, files={"t.cfg": cfg}, heap="16g")
        core.tlc_must_pass(res, "Traversal " + fam)
        chk.add_tlc(f"Traversal {fam} N={n}: LinearWork, EachOnce, ExactResult over every order of edge examination", res)
    hbin = core.build_harness(tmp)
    out = os.path.join(tmp, "trav.json")
    p = core.run([hbin, "traversal", chk.tier, out], timeout=3000)
    if p.returncode != 0:
        raise core.Infra("traversal driver failed: " + p.stderr[-2000:])
    rows = json.load(open(out))
    chk.cov["rule"] = ("one evaluation = one real graph operation (descendants, ancestors, selection closure, output-conflict detection, failure propagation in the walker) on one graph; "
                       "non-trivial = the graph has more paths than edges (ladders, dense DAGs); the work counter must not exceed |V|+|E| (|V|*(|V|+|E|) for conflict detection)")
    chk.cov["bounds"] = {"ladders": "depth 2..40 (thorough: ..400), width 2 and 3", "dense": "complete DAGs up to 22 (thorough: 80) nodes", "chains": "same node counts as the ladders"}
    worst = {}
    for r in rows:
        chk.cov["evaluations"] += 1
        chk.cov["traces_validated_against_impl"] += 1
        chk.count((r["graph"], r["op"]), nontrivial=not r["graph"].startswith("chain"))
        if r.get("timed_out"):
            chain_ms = max([x["ms"] for x in rows if x["op"] == r["op"] and x["graph"].startswith("chain") and x["v"] >= r["v"]] or [1.0])
            chk.violation(f"traversal:{r['op']}:time-blow-up", f"{r['op']} on {r['graph']} (|V|={r['v']}, |E|={r['e']}) did not return within 20 s; the same operation on a chain of at least that size "
                          f"takes {chain_ms:.2f} ms and its counted loops did {r['work']} iterations: the work is done outside the counted traversal", r)
        elif r["err"]:
            chk.violation(f"traversal:{r['op']}:error", f"{r['op']} on {r['graph']} failed: {r['err']}", r)
        elif r["work"] > r["bound"]:
            w = worst.get(r["op"])
            if w is None or r["work"] / r["bound"] > w["work"] / w["bound"]:
                worst[r["op"]] = r
    for op, r in worst.items():
        chk.violation(f"traversal:{op}:path-enumeration", f"{op} on {r['graph']} (|V|={r['v']}, |E|={r['e']}) did {r['work']} loop iterations, the specified traversal at most {r['bound']} "
                      f"({r['duplicates']} duplicate results)", r)
    big = [r for r in rows if r["graph"].startswith("ladder")]
    chk.cov["largest_ladder_ms"] = {r["op"]: r["ms"] for r in big[-5:]}
    for r in rows[:3]:
        chk.sample(r)
    chk.assumptions += ["work is counted in the loops that carry verifhook.Count; wall-clock time is recorded, not judged", "`grog changes` shares GetDescendants with rdeps and failure propagation"]
