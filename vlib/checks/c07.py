"""C07 The cache stays consistent across crashes and storage faults.
Spec: spec/CacheStore.tla (file-level model of storing a build's outputs: temp file, copy, close, rename; blobs -> tree -> result;
crash or storage fault at any step; BlobIntegrity, ResultClosure, NoTornResult; EventuallySucceeds) and spec/CacheOrderTrace.tla.
Binding: the real binary is killed (SIGKILL) or given I/O errors at every k-th file-system call (strace fault injection, no hooks
needed); after each run the cache directory is audited off-line (every visible blob re-hashed, every visible result decoded and its
references resolved through trees), the order in which entries became visible is validated against the specification, and a
follow-up build must succeed and equal the from-scratch build."""
import hashlib, json, os, random, re, shutil, signal, subprocess, time
from concurrent.futures import ThreadPoolExecutor
from vlib import core
from vlib.build_engine import digest_path

TRACED = "openat,write,renameat,renameat2,rename,mkdirat,unlinkat,ftruncate,fsync,close"   # close: so that "between open and rename" can be told
INJECT = "openat,write,renameat,mkdirat,unlinkat"


def make_ws(base, algo):
    ws = os.path.join(base, "ws")
    os.makedirs(os.path.join(ws, "pkg"))
    open(os.path.join(ws, "grog.toml"), "w").write(f'hash_algorithm = "{algo}"\nnum_workers = 3\n')
    targets = [
        {"name": "a", "command": "cat a.in > a.out", "inputs": ["a.in"], "outputs": ["a.out"]},
        {"name": "b", "command": "{ echo b; cat b.in; } > b.out", "inputs": ["b.in"], "outputs": ["b.out"]},
        {"name": "d", "command": "rm -rf dd; mkdir -p dd/sub; { echo x; cat a.out; } > dd/x; { echo y; cat b.out; } > dd/sub/y; cp dd/x dd/copy; : > dd/empty",
         "dependencies": [":a", ":b"], "outputs": ["dir::dd"]},
        {"name": "e", "command": "find dd -type f | sort | xargs cat | sha256sum > e.out", "dependencies": [":d"], "outputs": ["e.out"]},
        # two independent targets whose outputs have the same bytes: their blobs are one digest written by two workers at once
        {"name": "p", "command": "echo same-content > p.out", "outputs": ["p.out"]},
        {"name": "q", "command": "echo same-content > q.out", "outputs": ["q.out"]},
    ]
    json.dump({"targets": targets}, open(os.path.join(ws, "pkg", "BUILD.json"), "w"))
    open(os.path.join(ws, "pkg", "a.in"), "w").write("alpha\n")
    open(os.path.join(ws, "pkg", "b.in"), "w").write("beta\n")
    return ws


OUTS = ["a.out", "b.out", "dd", "e.out", "p.out", "q.out"]


def outputs(ws):
    return {o: digest_path(os.path.join(ws, "pkg", o)) for o in OUTS}


def env_of(base):
    return dict(os.environ, GROG_ROOT=os.path.join(base, "root"), HOME=base)


def cache_dir(base):
    root = os.path.join(base, "root")
    for d in os.listdir(root) if os.path.isdir(root) else []:
        c = os.path.join(root, d, "cache")
        if os.path.isdir(c):
            return c
    return None


def run_traced(grog, ws, base, inject=None, log="st.log"):
    cmd = ["strace", "-f", "-b", "execve", "-o", os.path.join(base, log), "-e", "trace=" + TRACED]
    for inj in ([inject] if isinstance(inject, str) else (inject or [])):
        cmd += ["-e", inj]
    cmd += [grog, "build", "//..."]
    try:
        p = subprocess.run(cmd, cwd=ws, env=env_of(base), capture_output=True, text=True, timeout=120)
        return p.returncode, p.stdout + p.stderr
    except subprocess.TimeoutExpired:
        return None, "timeout"


def renames(logpath, cache):
    """The entries that became visible, in order: (kind, name)."""
    out = []
    if not os.path.exists(logpath):
        return out
    pending = {}   # tid -> the first half of a call strace printed as "<unfinished ...>"
    for raw in open(logpath, errors="replace"):
        line = raw.rstrip("\n")
        mt = re.match(r"(\d+)\s+(.*)$", line)
        if not mt:
            continue
        tid, rest = mt.group(1), mt.group(2)
        if rest.endswith("<unfinished ...>"):
            pending[tid] = rest[: -len("<unfinished ...>")]
            continue
        mr = re.match(r"<\.\.\. (\w+) resumed>(.*)$", rest)
        if mr:
            rest = pending.pop(tid, "") + mr.group(2)
        line = tid + " " + rest
        m = re.search(r'rename(?:at2?)?\((?:AT_FDCWD, )?"([^"]+)", (?:AT_FDCWD, )?"([^"]+)"(?:, \w+)?\s*\)\s+= 0', line)
        if m and cache and m.group(2).startswith(cache):
            rel = os.path.relpath(m.group(2), cache)
            kind = rel.split("/")[0]
            out.append((kind, rel.split("/", 1)[1] if "/" in rel else rel))
    return out


def audit(hbin, cache, algo, tmp, tag):
    out = os.path.join(tmp, f"audit_{tag}.json")
    p = core.run([hbin, "audit", cache, algo, out], timeout=120)
    if p.returncode != 0:
        raise core.Infra("audit failed: " + p.stderr[-500:])
    return json.load(open(out))


def healthy_store_failure(rc, text, base, logname):
    """An un-faulted build that grog reports as 'failed to write outputs to cache' although nothing in the environment refused a
    call: exit 1 with that message, room on the disk, and a system-call log without a call failing for an environmental reason.
    CacheStore.tla's Set on a healthy store always succeeds, so this is the code leaving the specification; anything else is INFRA."""
    wl = os.path.join(base, logname)
    if not (rc == 1 and "failed to write outputs to cache" in (text or "") and os.path.exists(wl)):
        return False
    if shutil.disk_usage(base).free <= (1 << 30):
        return False
    return not re.search(r"= -1 (ENOSPC|EIO|EDQUOT|EMFILE|ENFILE|ENOMEM|EROFS|EACCES|EPERM|EINTR|EAGAIN)\b", open(wl, errors="replace").read())


def reference_build(chk, grog, tmp, name, algo, edited):
    """The from-scratch reference: up to 4 attempts; an attempt refused by a healthy store is a violation (and the next attempt is
    made so that the fault cases can still run); any other failure is an infrastructure outcome."""
    for attempt in range(4):
        base = os.path.join(tmp, f"{name}_{algo}" + (f"_{attempt}" if attempt else ""))
        os.makedirs(base)
        ws = make_ws(base, algo)
        if edited:
            open(os.path.join(ws, "pkg", "a.in"), "w").write("alpha edited\n")
        rc, text = run_traced(grog, ws, base)
        if rc == 0:
            return base, ws
        if not healthy_store_failure(rc, text, base, "st.log"):
            raise core.Infra(f"reference build{' (edited)' if edited else ''} failed: rc={rc} " + (text or "")[-500:])
        chk.violation("cache:healthy-store-write-fails:reference", f"{algo} from-scratch build{' of the edited sources' if edited else ''}, no fault injected, attempt {attempt + 1}: " + text[-300:].replace("\n", " "),
                      {"algo": algo, "edited": edited, "attempt": attempt + 1, "detail": text[-600:]})
        shutil.rmtree(base, ignore_errors=True)
    return None, None


def one_case(grog, hbin, tmp, case, clean):
    """case = (id, algo, warm, mode, k): warm = build once and edit before the faulted build; mode = kill | eio-write | eio-rename | random-kill."""
    cid, algo, warm, mode, k = case
    base = os.path.join(tmp, f"case_{cid}")
    os.makedirs(base)
    ws = make_ws(base, algo)
    problems, trace = [], None
    try:
        pre = []
        if warm:
            rc, wtext = run_traced(grog, ws, base, log="warm.log")
            if healthy_store_failure(rc, wtext, base, "warm.log"):
                # no fault is injected into the warm-up, every command exited 0, the disk has room and the system-call log shows no call that the
                # environment refused (ENOSPC, EIO, EMFILE, EACCES, ...), yet grog reports that the store refused a write:
                # CacheStore.tla's Set on a healthy store always succeeds (two workers storing one digest at once included), so this
                # is the code leaving the specification, not the environment (anything else that fails here stays an INFRA outcome)
                problems.append(("healthy-store-write-fails", "un-faulted build on a healthy store: " + wtext[-300:].replace("\n", " ")))
                return case, rc, problems, None, ""
            if rc != 0:
                raise core.Infra("warm-up build failed: rc=%s %s" % (rc, wtext[-600:]))
            open(os.path.join(ws, "pkg", "a.in"), "w").write("alpha edited\n")
            c = cache_dir(base)
            pre = sorted(os.listdir(os.path.join(c, "cas")))
        if mode == "kill":
            inj = f"inject={INJECT}:signal=SIGKILL:when={k}"
        elif mode.startswith("kill@"):
            inj = f"inject={mode[5:]}:signal=SIGKILL:when={k}"
        elif mode in ("slow-open+eio-rename", "slow-open+kill-at-rename"):
            # one writer of a blob is held in the creation of its temp file (a slow disk) while other workers go on, then its
            # rename fails or the process is killed there: whatever the other workers published must not depend on that blob
            K, J = divmod(k, 10)
            inj = [f"inject=openat:delay_exit=350000:when={K}",
                   f"inject=renameat:error=EIO:when={J}" if mode.endswith("eio-rename") else f"inject=renameat:signal=SIGKILL:when={J}"]
        elif mode == "eio-write":
            inj = f"inject=write:error=EIO:when={k}+3"
        elif mode == "eio-rename":
            inj = f"inject=renameat:error=EIO:when={k}"
        elif mode == "enospc-open":
            inj = f"inject=openat:error=ENOSPC:when={k}+7"
        else:
            inj = None
        if mode == "random-kill":
            proc = subprocess.Popen([grog, "build", "//..."], cwd=ws, env=env_of(base), stdout=subprocess.DEVNULL, stderr=subprocess.DEVNULL, start_new_session=True)
            time.sleep(k / 1000.0)
            try:
                os.killpg(proc.pid, signal.SIGKILL)
            except ProcessLookupError:
                pass
            proc.wait()
            rc = -9
        else:
            rc, text = run_traced(grog, ws, base, inject=inj)
            if rc is None:
                problems.append(("faulted-build-hangs", f"build with {inj} did not return within 120 s"))
        cache = cache_dir(base)
        if cache:
            rep = audit(hbin, cache, algo, base, "after")
            if rep["bad_blobs"]:
                problems.append(("blob-content-differs-from-digest", f"{len(rep['bad_blobs'])} blob(s) visible under a digest their content does not have: {rep['bad_blobs'][:3]}"))
            for r in rep["results"]:
                if not r["decodes"]:
                    problems.append(("torn-result", f"target result {r['key'][:40]} does not decode"))
                elif r["missing"]:
                    problems.append(("dangling-result", f"target result {r['key'][:40]} references {len(r['missing'])} blob(s) that are not in the cache"))
            refs = {r["key"]: r["refs"] for r in rep["results"] if r["decodes"]}
            evs = []
            for kind, name in renames(os.path.join(base, "st.log"), cache):
                if kind == "cas":
                    evs.append({"kind": "blob", "name": name, "refs": []})
                elif kind == "target" and name in refs:
                    evs.append({"kind": "result", "name": name, "refs": refs[name]})
            trace = {"pre": pre, "ev": evs}
        # the next build on the same cache and workspace
        p = subprocess.run([grog, "build", "//..."], cwd=ws, env=env_of(base), capture_output=True, text=True, timeout=120)
        if p.returncode != 0:
            problems.append(("follow-up-build-fails", (p.stdout + p.stderr)[-400:]))
        else:
            got = outputs(ws)
            want = clean["edited" if warm else "fresh"][algo]
            if got != want:
                problems.append(("follow-up-build-differs-from-clean", f"{ {o: (got[o], want[o]) for o in OUTS if got[o] != want[o]} }"))
            rep2 = audit(hbin, cache_dir(base), algo, base, "final")
            if rep2["bad_blobs"] or any((not r["decodes"]) or r["missing"] for r in rep2["results"]):
                problems.append(("cache-inconsistent-after-follow-up", json.dumps({"bad": rep2["bad_blobs"][:3]})))
        last = ""
        lp = os.path.join(base, "st.log")
        if os.path.exists(lp):
            lines = open(lp, errors="replace").read().splitlines()
            last = next((l for l in reversed(lines) if "killed by" not in l and "+++" not in l), "")[:160]
        return case, rc, problems, trace, last
    finally:
        shutil.rmtree(base, ignore_errors=True)


def run(chk, tmp, replay=None):
    quick = chk.tier == "quick"
    for atomic_name, cr, fl in (("crashes<=2, faults<=2", 2, 2),):
        cfg = f"SPECIFICATION Spec\nCONSTANTS\n  Atomic = TRUE\n  MaxCrashes = {cr}\n  MaxFaults = {fl}\nINVARIANTS BlobIntegrity ResultClosure NoTornResult\n"
        res = core.tlc(os.path.join(tmp, "ex"), "CacheStore.tla", "c.cfg", timeout=900, files={"c.cfg": cfg})
        core.tlc_must_pass(res, "CacheStore")
        chk.add_tlc(f"CacheStore exhaustive ({atomic_name}): every crash point and fault between two file-system steps, every restart; BlobIntegrity, ResultClosure, NoTornResult", res)
    cfg = "SPECIFICATION FairSpec\nCONSTANTS\n  Atomic = TRUE\n  MaxCrashes = 1\n  MaxFaults = 1\nPROPERTIES EventuallySucceeds\n"
    res = core.tlc(os.path.join(tmp, "live"), "CacheStore.tla", "c.cfg", timeout=900, files={"c.cfg": cfg})
    core.tlc_must_pass(res, "CacheStore liveness")
    chk.add_tlc("CacheStore liveness: EventuallySucceeds (the next builds re-execute what was lost)", res)
    # unbounded in crashes, faults and restarted builds: the inductive invariant of the store protocol, checked by the TLA+ proof system
    n, wall = core.tlapm(os.path.join(tmp, "proof"), "CacheStoreProof.tla")
    chk.cov["proofs"] = [{"module": "CacheStoreProof.tla", "theorem": "Spec => [](BlobIntegrity /\\ NoTornResult /\\ ResultClosure) with Atomic = TRUE, any MaxCrashes and MaxFaults",
                          "obligations_proved": n, "wall_s": wall, "tool": "tlapm (SMT, Zenon, Isabelle, PTL back ends)"}]
    grog = core.build_grog(tmp)
    hbin = core.build_harness(tmp)
    # the from-scratch outputs, per algorithm, for the fresh and the edited sources
    clean = {"fresh": {}, "edited": {}}
    kmax, targeted = {}, {}
    for algo in ("xxh3", "sha256"):
        base, ws = reference_build(chk, grog, tmp, "clean", algo, False)
        if base is None:
            return      # four reference builds in a row refused by a healthy store: reported above
        clean["fresh"][algo] = outputs(ws)
        per_thread = {}
        ordinal = {}           # (thread, syscall) -> count so far
        in_set = {}            # thread -> currently between a cache temp-file open and its rename
        cand = set()
        for line in open(os.path.join(base, "st.log"), errors="replace"):
            m = re.match(r"(\d+)\s+(\w+)\(", line)
            if not m:
                continue
            t, sc = m.group(1), m.group(2)
            if sc in INJECT.split(","):
                per_thread[t] = per_thread.get(t, 0) + 1
            ordinal[(t, sc)] = ordinal.get((t, sc), 0) + 1
            touches = "/cache/" in line
            if sc == "openat" and touches and "tmp-" in line:
                in_set[t] = True
            if touches or (in_set.get(t) and sc in ("write", "close", "fsync", "ftruncate")):
                if sc in ("openat", "write", "renameat", "mkdirat", "unlinkat", "close"):
                    cand.add((sc, ordinal[(t, sc)]))
            if sc == "renameat" and touches:
                in_set[t] = False
        kmax[algo] = max(per_thread.values())
        targeted[algo] = sorted(cand)
        base2, ws2 = reference_build(chk, grog, tmp, "clean2", algo, True)
        if base2 is None:
            return
        clean["edited"][algo] = outputs(ws2)
        shutil.rmtree(base, ignore_errors=True)
        shutil.rmtree(base2, ignore_errors=True)
    rng = random.Random(chk.seed)
    cases, cid = [], 0
    for algo in ("xxh3", "sha256"):
        ks = list(range(1, kmax[algo] + 2))
        if quick:
            ks = sorted(rng.sample(ks, min(len(ks), 10)))
        for warm in (False, True):
            for k in ks:
                cid += 1
                cases.append((cid, algo, warm, "kill", k))
        # kills aimed at the cache writes themselves: the k-th openat / write / close / rename / mkdir / unlink of a thread that the
        # reference run performed on a cache path (or on a cache temp file)
        tg = targeted[algo]
        if quick:
            tg = sorted(rng.sample(tg, min(len(tg), 40)))
        for sc, k in tg:
            for warm in ((False, True) if not quick else (k % 2 == 0,)):
                cid += 1
                cases.append((cid, algo, warm, "kill@" + sc, k))
        opens = [k for sc, k in targeted[algo] if sc == "openat"]
        if quick:
            opens = sorted(rng.sample(opens, min(len(opens), 8)))
        for K in opens:
            for J in (1, 2, 3):
                for mode in ("slow-open+eio-rename", "slow-open+kill-at-rename"):
                    cid += 1
                    cases.append((cid, algo, False, mode, K * 10 + J))
        for mode, n in (("eio-write", 6 if quick else 30), ("eio-rename", 6 if quick else 14), ("enospc-open", 4 if quick else 20)):
            for k in range(1, n + 1):
                cid += 1
                cases.append((cid, algo, k % 2 == 0, mode, k))
        for j in range(6 if quick else 120):
            cid += 1
            cases.append((cid, algo, j % 2 == 0, "random-kill", rng.randint(5, 650)))
    chk.cov["bounds"] = {"scenario": "4 targets (two file outputs, a directory output with nested and duplicate files, a dependant), both hash algorithms, cold cache and warm cache + edit",
                         "crash_points": f"SIGKILL at the k-th traced file-system call of any thread, k = 1..{max(kmax.values()) + 1} ({'sample' if quick else 'all'})",
                         "faults": "EIO on write, EIO on rename, ENOSPC on open at the k-th occurrence; kill -9 at random times"}
    chk.cov["rule"] = ("one evaluation = one real build killed or faulted at one point, then the off-line cache audit, the visibility-order trace validation and the follow-up build compared with the from-scratch build; "
                       "distinct = distinct (algorithm, cache state, fault kind, k); non-trivial = the fault landed after the first cache write (recorded last syscall touches the cache)")
    traces = []
    with ThreadPoolExecutor(core.NCPU) as ex:
        results = list(ex.map(lambda c: one_case(grog, hbin, tmp, c, clean), cases))
    landed = 0
    for case, rc, problems, trace, last in results:
        chk.cov["traces_validated_against_impl"] += 1
        nontrivial = "/cache/" in last or case[3] == "random-kill"
        landed += nontrivial
        chk.count(case[1:], nontrivial)
        if trace and trace["ev"]:
            traces.append((case, trace))
        for kind, detail in problems:
            chk.violation(f"cache:{kind}:{case[3]}", f"{case[1]} {'warm cache + edit' if case[2] else 'cold cache'}, {case[3]} at k={case[4]} (last call: {last}): {detail}", {"case": case, "detail": detail, "last_syscall": last})
    chk.cov["faults_landed_in_cache_writes"] = landed
    if traces:
        res = core.tlc(os.path.join(tmp, "order"), "CacheOrderTraceMC.tla", "o.cfg", workers=1, timeout=900,
                       files={"cache_order_traces.json": json.dumps([t for _, t in traces]),
                              "o.cfg": "SPECIFICATION Spec\nCONSTANTS\n  TraceFile <- TraceFileC\nINVARIANTS ResultClosure\nCHECK_DEADLOCK FALSE\n"}, heap="4g")
        if res.rc != 0 or "Model checking completed" not in res.out:
            raise core.Infra("order trace validation failed:\n" + res.out[-2000:])
        chk.add_tlc("CacheOrderTrace: ResultClosure at every prefix of the recorded visibility order", res, traces=len(traces))
        for line in res.out.splitlines():
            if line.startswith('<<"BROKEN"'):
                for ti, li in sorted({(int(a), int(b)) for a, b in re.findall(r"<<(\d+), (\d+), ", line)})[:6]:
                    case, tr = traces[ti - 1]
                    ev = tr["ev"][li - 1]
                    seen_before = set(tr["pre"]) | {e["name"] for e in tr["ev"][: li - 1] if e["kind"] == "blob"}
                    later = {e["name"] for e in tr["ev"][li:] if e["kind"] == "blob"}
                    if not ((set(ev["refs"]) - seen_before) & later):
                        continue   # the blob's rename is not in the log at all: the log is incomplete, not evidence of a wrong order
                    chk.violation("cache:result-visible-before-its-blobs", f"{case}: a target result was renamed into place before a blob it references", {"case": case, "trace": traces[ti - 1][1]})
                break
    # the tiered cache (local + remote store) under a storage fault of the local tier: Remote.tla behaviours, remote store audited
    from vlib.checks import c08
    for h, (mism, dangling, _puts) in c08.local_fault_behaviours(chk, tmp, grog, hbin, quick):
        chk.cov["traces_validated_against_impl"] += 1
        steps = [(s["act"]["kind"], s["act"].get("m"), s["act"].get("remote"), s["act"].get("f")) for s in h]
        chk.count(("tiered",) + tuple(map(str, steps)), nontrivial=True)
        for kind, what in dangling:
            chk.violation(f"cache:{kind}", f"tiered cache, behaviour {steps}: {what}", {"behaviour": h})
        for m in mism:
            if m["kind"].startswith("harness-"):
                raise core.Infra(f"remote harness problem: {m}")
            if m["kind"] == "wrong-output":
                chk.violation("cache:corrupt-output-restored", f"tiered cache, behaviour {steps[: m['step'] + 1]}: a build restored an output whose bytes differ from what the command produces", {"behaviour": h, "mismatch": m})
            else:
                chk.cov.setdefault("anomalies_attributed_to_other_properties", {})["C08:" + m["kind"]] = 1
    chk.sample({"case": results[0][0], "exit": results[0][1], "last_syscall": results[0][4]})
    chk.assumptions += ["crash points are enumerated per thread by strace's when=k counter: every k is a real crash point, but not every interleaving of threads is visited",
                        "crash points: local fs backend (the remote mirror is C08); storage faults: local fs backend by syscall error injection, and the tiered cache with a broken local blob directory", "strace -b execve: target shells are not traced or killed by the injector"]
