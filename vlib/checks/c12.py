"""C12 Selection is the pattern matches plus their dependency closure, nothing else.
Spec: spec/Selection.tla (every (graph, invocation) pair one TLC state; ClosedUnderDeps, NothingElse).
Binding B3: every pair is selected by the real selection.Selector in-process; a sample is run through the real
`grog build` / `grog test` with an empty cache: exactly the selected targets' commands must run, a platform error must fail."""
import json, os, random
from concurrent.futures import ThreadPoolExecutor
from vlib import core

PKG0 = {"n1": "p", "n2": "p", "n3": "p/q", "r": "r"}
PKG = PKG0      # (the standard layout; used by c20)

def render(ws, g):
    PKG = dict(PKG0, r="" if g.get("layout") == "root" else "r")

    def name(n):
        return n + "test" if n in g["test"] else n
    pk = {}
    for n in ("n1", "n2", "n3", "r"):
        d = pk.setdefault(PKG[n], {"targets": [], "aliases": []})
        if n == "n2" and g["alias2"] != "none":
            d["aliases"].append({"name": "n2", "actual": f"//{PKG[g['alias2']]}:{name(g['alias2'])}"})
            continue
        t = {"name": name(n), "command": f'echo {n} >> "$GROG_WORKSPACE_ROOT/../ran"'}
        deps = g["deps"].get(n) or []
        if deps:
            t["dependencies"] = [f"//{PKG[x]}:{name(x)}" for x in deps]
        if n in g["tag"]:
            t["tags"] = ["t1"]
        pl = (g["plat"] or {}).get(n)
        if pl == "host":
            t["platforms"] = ["linux/amd64"]
        elif pl == "other":
            t["platforms"] = ["darwin/arm64"]
        d["targets"].append(t)
    for p, d in pk.items():
        os.makedirs(os.path.join(ws, p), exist_ok=True)
        json.dump(d, open(os.path.join(ws, p, "BUILD.json"), "w"))
    open(os.path.join(ws, "grog.toml"), "w").write("")

def run(chk, tmp, replay=None):
    quick = chk.tier == "quick"
    hbin = core.build_harness(tmp)
    cfg = ("SPECIFICATION Spec\nCONSTANTS\n  OutFile <- OutFileC\n  DepChoice = \"%s\"\nINVARIANTS ClosedUnderDeps NothingElse AllPlatformsNeverErrors\nCHECK_DEADLOCK FALSE\n"
           % ("some" if quick else "all"))
    wd = os.path.join(tmp, "tlc")
    res = core.tlc(wd, "SelectionMC.tla", "s.cfg", timeout=3000, files={"s.cfg": cfg}, heap="24g")
    core.tlc_must_pass(res, "Selection")
    chk.add_tlc("Selection: every (graph, invocation) pair; ClosedUnderDeps, NothingElse, AllPlatformsNeverErrors", res)
    cases = os.path.join(wd, "selection_cases.json")
    out = os.path.join(tmp, "sel_out.json")
    p = core.run([hbin, "selection", cases, out], timeout=3000)
    if p.returncode != 0:
        raise core.Infra("selection driver failed: " + p.stderr[-2000:])
    d = json.load(open(out))
    chk.cov["evaluations"] = d["total"]
    chk.cov["traces_validated_against_impl"] = d["total"]
    chk.cov["distinct_nontrivial"] = d["total"]
    chk.cov["exhaustive"] = True
    chk.cov["case_counts"] = d["counts"]
    chk.cov["rule"] = ("every (graph, invocation) pair is built as real model nodes + BuildGraph and selected by the real Selector; the selected target set or the platform error must equal the "
                       "specification's; pairs outside the property's domain (a matched alias whose target fails the filters) are counted as undefined and skipped")
    chk.cov["bounds"] = {"graph": "4 nodes in packages p, p, p/q, r (or the root package); n2 a target or an alias to n1 / n3; %s dependency shapes; t1 tag on none/n1/n3; test name on none/n3/r; platform restriction on n1 / r" % ("16" if quick else "64"),
                         "invocations": "16 pattern sets (absolute, relative, recursive, :all, shorthand, name suffix, two patterns, root package) x {no tag filter, --tag t1, --exclude-tag t1} x {build, test} x {host platform, --all-platforms}"}
    for x in d["disagreements"]:
        kind = "panic" if x["real"].startswith("panic") else ("selects-wrong-set" if x["model"].startswith("ok") and x["real"].startswith("ok") else "error-mismatch")
        chk.violation(f"selection:{kind}:{x['model']}->{x['real']}", f"graph {json.dumps(x['graph'])} invocation {json.dumps(x['inv'])}: specification {x['model']}, real Selector {x['real']}", x)
    allc0 = json.load(open(cases))
    chk.sample({"graph": allc0["graphs"][0]["g"], "invocation": allc0["invocations"][0], "expected": allc0["graphs"][0]["results"][0]})
    if chk.violations:
        return   # the selector already disagrees in-process; a build of a non-closed selection may not even terminate
    # CLI sample with an empty cache
    grog = core.build_grog(tmp)
    allc = json.load(open(cases))
    rng = random.Random(chk.seed)
    picks = []
    want = 60 if quick else 600
    tries = 0
    while len(picks) < want and tries < want * 50:
        tries += 1
        gi = rng.randrange(len(allc["graphs"]))
        k = rng.randrange(len(allc["invocations"]))
        r = allc["graphs"][gi]["results"][k]
        if r["kind"] == "undefined":
            continue
        if r["kind"] == "ok" and not r["sel"] and rng.random() < 0.8:
            continue
        picks.append((gi, k))

    def cli(gk):
        gi, k = gk
        g, inv, r = allc["graphs"][gi]["g"], allc["invocations"][k], allc["graphs"][gi]["results"][k]
        base = os.path.join(tmp, "cli", f"{gi}_{k}")
        ws = os.path.join(base, "ws")
        os.makedirs(ws)
        render(ws, g)
        env = dict(os.environ, GROG_ROOT=os.path.join(base, "root"), HOME=base)
        args = [grog, "test" if inv["type"] == "test" else "build", "--platform", "linux/amd64"] if not inv["allp"] else [grog, "test" if inv["type"] == "test" else "build", "--all-platforms"]
        if inv["tagf"] == "want-t1":
            args += ["--tag", "t1"]
        elif inv["tagf"] == "exclude-t1":
            args += ["--exclude-tag", "t1"]
        args += sorted(inv["pats"])
        c = core.run(args, cwd=os.path.join(ws, "p"), env=env, timeout=120)
        ran = sorted(set(open(os.path.join(base, "ran")).read().split())) if os.path.exists(os.path.join(base, "ran")) else []
        return g, inv, r, c.returncode, ran, (c.stdout + c.stderr)[-400:]

    with ThreadPoolExecutor(core.NCPU) as ex:
        for g, inv, r, rc, ran, text in ex.map(cli, picks):
            chk.cov["evaluations"] += 1
            if r["kind"] == "error":
                if rc == 0 or ran:
                    chk.violation("selection:cli-platform-error-not-reported", f"platform-incompatible dependency: expected an error and nothing built, got exit {rc}, ran {ran}: {json.dumps(g)} {json.dumps(inv)}", [g, inv, text])
            else:
                want_set = sorted(r["sel"])
                if ran != want_set and not (not want_set and rc != 0):
                    chk.violation(f"selection:cli-ran:{want_set}->{ran}", f"the build ran {ran}, the specification selects {want_set}: {json.dumps(g)} {json.dumps(inv)} exit={rc} {text[-200:]}", [g, inv, text])
    chk.cov["cli_sample"] = len(picks)
    chk.sample({"graph": allc["graphs"][0]["g"], "invocation": allc["invocations"][0], "expected": allc["graphs"][0]["results"][0]})
    chk.assumptions += ["pattern strings mean what spec/Labels.tla says (C17)", "out of domain: an alias matched by the pattern whose actual target fails the type/tag/platform filters"]
