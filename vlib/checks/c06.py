"""C06 Cached outputs are restored exactly, from any workspace state.
Spec: spec/Restore.tla (every (cached tree, prior destination state) pair is one TLC state; RestoreExact).
Binding B3: every pair is replayed into the real file / directory output handlers (Write, perturb, Load, list)."""
import json, os
from collections import Counter
from vlib import core

def run(chk, tmp, replay=None):
    quick = chk.tier == "quick"
    cfg = ("SPECIFICATION RSpec\nCONSTANTS\n  Contents = {\"\", \"x\"%s}\n  RootNames = {\"f\", \"-u b\"}\n  SubNames = {\"n\", \"m\"}\n  MaxSub = %d\n"
           "  OutFile <- OutFileC\nINVARIANTS RestoreExact\nCHECK_DEADLOCK FALSE\n") % ("" if quick else ', "y"', 1 if quick else 2)
    wd = os.path.join(tmp, "tlc")
    res = core.tlc(wd, "RestoreMC.tla", "r.cfg", timeout=3000, files={"r.cfg": cfg}, heap="16g")
    core.tlc_must_pass(res, "Restore")
    chk.add_tlc("Restore: every (cached tree, prior destination state) pair, RestoreExact", res)
    out = os.path.join(tmp, "restore_out.json")
    p = core.go_test("./restoredrv", "TestRestoreCases", {"VERIF_RESTORE_IN": os.path.join(wd, "restore_cases.json"), "VERIF_RESTORE_OUT": out}, timeout=3000)
    if p.returncode != 0 or not os.path.exists(out):
        raise core.Infra("restore driver failed:\n" + (p.stdout + p.stderr)[-3000:])
    d = json.load(open(out))
    cases = json.load(open(os.path.join(wd, "restore_cases.json")))
    n = sum(d["counts"].values())
    chk.cov["evaluations"] = n
    chk.cov["traces_validated_against_impl"] = n
    chk.cov["distinct_nontrivial"] = sum(v for k, v in d["counts"].items() if not k.endswith("identical"))
    chk.cov["exhaustive"] = True
    chk.cov["case_counts"] = d["counts"]
    chk.cov["bounds"] = {"contents": ["", "x"] + ([] if quick else ["y"]), "root_names": ["f", "-u b"], "sub_names": ["n", "m"], "max_entries_per_subdir": 1 if quick else 2,
                         "entry_kinds": "file (content, exec bit), symlink, empty directory, sub-directory", "hash_algorithms": "xxh3 on every case, sha256 on every 7th directory case"}
    chk.cov["rule"] = ("every (cached output, prior destination state) pair enumerated by TLC is written through the real handler, the destination put into the prior state, restored, and the "
                       "recursive listing (names, types, contents, executable bits, link targets, empty directories) compared; non-trivial = prior state differs from the cached one")
    kinds = Counter(f["kind"] for f in d["failures"])
    for f in d["failures"]:
        chk.violation("restore:" + f["kind"], f"restore of {f['case'][:300]}: expected\n{f['expected'][:400]}\ngot\n{f['got'][:400]}", f)
    if kinds:
        core.log("  failures by kind: %s" % dict(kinds))
    for c in cases["dirs"][:2] + cases["files"][:2]:
        chk.sample(c)
    chk.assumptions += ["tests run as root: permission-based prior states (read-only sub-directory) do not obstruct RemoveAll", "docker outputs are not exercised (no daemon offline)",
                        "tree depth 2, names incl. a space and a leading dash; byte contents up to 1 character (digests are content-agnostic)"]
