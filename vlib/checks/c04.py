"""C04: decided by spec/Walker.tla (exhaustive TLC) + trace validation of the real walker/pool (see vlib/walker_engine.py)."""
from vlib import walker_engine

def run(chk, tmp, replay=None):
    walker_engine.run(chk, tmp, "C04")
