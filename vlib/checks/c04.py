"""C04: walker level (Walker.tla exhaustive + trace validation, hangs/panics/races on the real walker and pool) and the
directory-restore goroutines under CAS read faults (spec/DirLoad.tla exhaustive; the real DirectoryOutputHandler.Load driven with
every fault subset inside a synctest bubble: it must return an error or an exact tree, never hang)."""
import json, os
from vlib import core, walker_engine
from vlib.checks import _hist

def dirload(chk, tmp):
    quick = chk.tier == "quick"
    for n in ([3] if quick else [3, 5]):
        cfg = f"SPECIFICATION LSpec\nCONSTANTS\n  NFiles = {n}\n  Cap = 1\n  NonBlockingSend = TRUE\nINVARIANTS FaultIsError\n"
        res = core.tlc(os.path.join(tmp, f"dl{n}"), "DirLoad.tla", "dl.cfg", timeout=900, files={"dl.cfg": cfg})
        core.tlc_must_pass(res, "DirLoad")
        chk.add_tlc(f"DirLoad: {n} files, every fault subset, every interleaving; deadlock freedom + FaultIsError", res)
    if not quick:
        cfg = "SPECIFICATION LFairSpec\nCONSTANTS\n  NFiles = 3\n  Cap = 1\n  NonBlockingSend = TRUE\nPROPERTIES LoadTerminates\n"
        res = core.tlc(os.path.join(tmp, "dll"), "DirLoad.tla", "dl.cfg", timeout=900, files={"dl.cfg": cfg})
        core.tlc_must_pass(res, "DirLoad liveness")
        chk.add_tlc("DirLoad liveness: LoadTerminates under weak fairness", res)
    out = os.path.join(tmp, "fault_out.json")
    p = core.go_test("./restoredrv", "TestDirLoadFaults", {"VERIF_FAULT_OUT": out, "VERIF_TIER": chk.tier}, timeout=1500)
    if p.returncode != 0 or not os.path.exists(out):
        raise core.Infra("fault driver failed:\n" + (p.stdout + p.stderr)[-3000:])
    rs = json.load(open(out))
    for r in rs:
        chk.cov["traces_validated_against_impl"] += 1
        chk.count((r["shape"], r["files"], tuple(r["fault"])), nontrivial=bool(r["fault"]))
        want = "error" if r["fault"] else "ok"
        if r["outcome"] == "hang":
            chk.violation("dirload:hang", f"DirectoryOutputHandler.Load never returns: {r['shape']} directory with {r['files']} file(s), unreadable blobs {r['fault']}", r)
        elif r["outcome"] != want:
            chk.violation("dirload:" + r["outcome"], f"restore under read faults {r['fault']} of a {r['shape']} directory with {r['files']} file(s): expected {want}, got {r['outcome']} {r['detail'][:200]}", r)
    chk.cov["dirload_cases"] = len(rs)

def run(chk, tmp, replay=None):
    walker_engine.run(chk, tmp, "C04")
    dirload(chk, tmp)
    others = dict(chk.cov.get("anomalies_attributed_to_other_properties", {}))
    _hist.run(chk, tmp, "C04")      # cache-fault histories through the CLI: a build that does not return or crashes
    others.update(chk.cov.get("anomalies_attributed_to_other_properties", {}))
    chk.cov["anomalies_attributed_to_other_properties"] = others
