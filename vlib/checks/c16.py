"""C16 BUILD loaders agree across formats, are deterministic, and never crash.
Spec: spec/Loader.tla (abstract package + enrichment rules; the Makefile annotation automaton over line-kind sequences).
Binding B3: every abstract package is rendered as JSON / YAML / Starlark / Makefile annotations and loaded by the real loaders
in-process: each must produce exactly Expected; every line-kind sequence goes through the real Makefile loader; structural and
byte-level corruptions must never panic or hang; worker counts must not change the result; a CLI sample cross-checks
`grog graph -o json`."""
import json, os, re
from collections import Counter
from vlib import core

def run(chk, tmp, replay=None):
    quick = chk.tier == "quick"
    hbin = core.build_harness(tmp)
    cfg = "SPECIFICATION Spec\nCONSTANTS\n  OutFile <- OutFileC\n  MaxLines = %d\nINVARIANTS ExcludeNeverAdds PlatformRule NoMarkerNoTargets\nCHECK_DEADLOCK FALSE\n" % (5 if quick else 6)
    wd = os.path.join(tmp, "tlc")
    res = core.tlc(wd, "LoaderMC.tla", "l.cfg", timeout=3000, files={"l.cfg": cfg}, heap="16g")
    core.tlc_must_pass(res, "Loader")
    chk.add_tlc("Loader: every abstract package (enrichment rules) and every annotation line-kind sequence", res)
    out = os.path.join(tmp, "loader_out.json")
    scratch = os.path.join(tmp, "ls")
    shards = 6
    from concurrent.futures import ThreadPoolExecutor
    def shard_run(i):
        return core.run([hbin, "loader", os.path.join(wd, "loader_cases.json"), scratch + f"_{i}", out + f".{i}", str(chk.seed), str(i), str(shards)], timeout=3000)
    with ThreadPoolExecutor(shards) as ex:
        procs = list(ex.map(shard_run, range(shards)))
    p = next((q for q in procs if q.returncode != 0), procs[0])
    if p.returncode != 0:
        bad = procs.index(p)
        scratch = scratch + f"_{bad}"
    else:
        merged = {"counts": {}, "disagreements": []}
        for i in range(shards):
            d = json.load(open(out + f".{i}"))
            for k, v in d["counts"].items():
                merged["counts"][k] = merged["counts"].get(k, 0) + v
            merged["disagreements"] += d["disagreements"]
        json.dump(merged, open(out, "w"))
    chk.cov["rule"] = ("one evaluation = one rendering loaded by the real loader; distinct = distinct (abstract package, format) or line sequence or corrupted text; "
                       "non-trivial = all but the empty line sequence")
    chk.cov["bounds"] = {"packages": "one target: 3 dependency lists x 4 input lists (literal, glob, missing + glob) x exclude or not x 3 output lists x no-cache x fingerprint x platforms x timeout x bin_output, "
                                     "package default platforms, optional alias: 9 216 abstract packages", "line_sequences": "all sequences of 7 line kinds up to length %d" % (5 if quick else 6),
                         "corruptions": "10 structural JSON corruptions; type confusion: every node of a rich document x 24 wrongly typed values (JSON, YAML), YAML-only shapes (empty entries, anchors, tags), every Makefile and script-target annotation field x menu, every Starlark builtin keyword x 27 literals; every single-byte deletion/truncation/insertion (thorough: replacement, transposition) of one rendering per format; seeded multi-byte mutations of renderings in all four formats", "worker_counts": [1, 2, 4, 8, 16]}
    if p.returncode != 0:
        text = p.stderr
        frames = re.findall(r"(" + re.escape(core.REPO) + r"/internal/\S+:\d+)", text)
        if ("panic:" in text or "fatal error:" in text) and frames:
            case = ""
            try:
                case = open(os.path.join(scratch, "current_case.txt")).read()
            except OSError:
                pass
            head = re.search(r"(panic: [^\n]+|fatal error: [^\n]+)", text)
            chk.cov["evaluations"], chk.cov["distinct_nontrivial"] = 2, 2
            chk.sample({"crashing_input": case[:600]})
            chk.violation("loader:crash:" + (frames[0].split("/")[-1] if frames else "unknown"),
                          f"the real loader crashed ({head.group(1) if head else 'panic'}) at {frames[:3]} on input:\n{case[:800]}", {"stderr": text[-3000:], "input": case})
            return
        raise core.Infra("loader driver failed: " + p.stderr[-2000:])
    d = json.load(open(out))
    n = sum(v for k, v in d["counts"].items() if not k.startswith("disagree"))
    chk.cov["evaluations"] = n
    chk.cov["traces_validated_against_impl"] = n
    chk.cov["distinct_nontrivial"] = n - 1
    chk.cov["case_counts"] = d["counts"]
    kinds = Counter((x["kind"], x["format"]) for x in d["disagreements"])
    if kinds:
        core.log("  disagreements: %s" % dict(kinds))
    for x in d["disagreements"]:
        sig = f"loader:{x['kind']}:{x['format']}"
        if x["kind"] == "target-differs" and isinstance(x["want"], dict) and isinstance(x["got"], dict):
            diff = sorted(k for k in x["want"] if x["want"].get(k) != x["got"].get(k))
            sig += ":" + ",".join(diff)
        chk.violation(sig, f"{x['format']}: case {json.dumps(x['case'])[:400]}: specification {json.dumps(x['want'])[:400]}, real loader {json.dumps(x['got'])[:400]}", x)
    cases = json.load(open(os.path.join(wd, "loader_cases.json")))
    chk.sample(cases["packages"][5])
    chk.sample(cases["lines"][200])
    chk.assumptions += ["corruptions beyond single edits and type confusion are seeded samples; all corruptions are judged only for panics/hangs (a TLA+ model of YAML/JSON/Starlark lexing would be a re-implementation, DESIGN.md section 9)",
                        "Makefile annotations cannot express command, exclude_inputs, bin_output, aliases or package defaults; Starlark cannot express package default platforms: those packages are not rendered in that format",
                        "script targets (*.grog.sh) are exercised for robustness only (type confusion, single edits), not for cross-format agreement; the pkl loader needs the external pkl binary and is not exercised"]
