"""Engine shared by C03 / C04 / C05 (and the walker part of C18): spec/Walker.tla checked exhaustively by TLC,
then the real dag.Walker + worker pool driven under seeded gate schedules (harness/walkdrv) and every
recorded execution validated against the specification (spec/WalkerTrace.tla).

Each anomaly (a trace step the specification cannot take, an invariant false in a trace state, a hang, a
panic, a data race, a fatal runtime error) is attributed to exactly one property; a check reports only its
own anomalies as violations and lists the others in its evidence."""
import json
import os
import re
from collections import Counter

from vlib import core

INV_PROP = {"TypeOK": "C03", "DepsFirst": "C03", "WorkerBound": "C03",
            "NoLostSignal": "C04", "NoRace": "C04", "Resolved": "C04",
            "KeepGoing": "C05", "KeepGoingExact": "C05", "NeverBelowFailure": "C05", "FailureRecorded": "C05", "AtMostOnce": "C03"}
WHY_PROP = {
    "task-started-but-callback-not-entered": "C03", "worker-id-above-num_workers": "C03", "worker-slot-busy": "C03",
    "node-taken-twice": "C03", "ready-without-start": "C03", "started-before-all-dependencies-done": "C03",
    "non-root-started-by-walk": "C03", "root-started-twice": "C03",
    "command-started-after-cancel": "C05", "context-cancelled-without-cause": "C05", "cancel-without-cause": "C05",
    "cancelled-without-failed-ancestor": "C05", "failure-recorded-as-success-or-vice-versa": "C05", "failfast-flag-mismatch": "C05",
    "failfast-cancel-without-failure": "C05", "failure-swallowed-as-cancellation": "C05", "cancelled-target-recorded": "C05",
    "lookup-result-mismatch": "C04", "root-entry-missing": "C04", "callback-result-differs-from-task": "C04",
    "job-refused-by-open-pool": "C04", "callback-returned-twice": "C04", "completion-without-callback-return": "C04",
    "returned-before-all-nodes-finished": "C04", "returned-cancelled-without-cancel": "C04",
    "returned-map-size-differs-from-completions": "C04", "returned-map-written-after-return": "C04",
    "pool-closed-while-walk-running": "C04",
    "harness-task-end-mismatch": "INFRA", "unexpected-event": "INFRA",
}
INVS_BY_PROP = {"C03": "TypeOK DepsFirst DepsFirstTransitive WorkerBound", "C04": "TypeOK NoLostSignal NoRace Resolved",
                "C05": "TypeOK KeepGoing KeepGoingExact NeverBelowFailure FailureRecorded", "C18": "TypeOK Resolved"}
# Refines: Walker.tla implements the abstract executor of Executor.tla (dependency order, worker bound, no command after the stop)
PROPS_BY_PROP = {"C03": "AtMostOnce Refines", "C04": "", "C05": "StopsStarts Refines", "C18": "StopsStarts"}


def exhaustive(chk, tmp, prop):
    """spec => property: every interleaving, every DAG up to N nodes, every selection / failure set / mode."""
    quick = chk.tier == "quick"
    runs = []
    if quick:
        runs.append(("n3", 3, 2, prop in ("C04", "C18"), 600))
    else:
        runs.append(("n3-ext", 3, 2, True, 900))
        runs.append(("n4", 4, 2, False, 3000))
    for name, n, mw, ext, to in runs:
        cfg = (f"SPECIFICATION Spec\nCONSTANTS\n  N = {n}\n  MaxWorkers = {mw}\n  SplitRegistration = TRUE\n"
               f"  AllowExtCancel = {'TRUE' if ext else 'FALSE'}\nINVARIANTS {INVS_BY_PROP[prop]}\n")
        props = PROPS_BY_PROP[prop]
        if name == "n4":
            props = props.replace("Refines", "").strip()      # (the refinement is checked on the <= 3-node families; temporal checking triples the time)
        if props:
            cfg += f"PROPERTIES {props}\n"
        if quick and ext:
            cfg += "CONSTRAINT NotReturned\n"
        res = core.tlc(os.path.join(tmp, "ex_" + name), "Walker.tla", "ex.cfg", timeout=to, files={"ex.cfg": cfg}, heap="24g")
        core.tlc_must_pass(res, f"Walker {name}")
        chk.add_tlc(f"Walker exhaustive {name}: all DAGs <= {n} nodes x selections x failure sets x fail-fast x workers<= {mw}, ext-cancel={ext}",
                    res, invariants=INVS_BY_PROP[prop].split(), action_properties=props.split(), deadlock_checked=True)
    if prop in ("C03", "C05"):
        nn = 4      # (5 nodes: 13 minutes; the refinement itself is checked on the <= 3-node families)
        cfg = (f"SPECIFICATION MCSpec\nCONSTANTS\n  N = {nn}\n  MaxWorkers = 2\n  XNodes = {{{', '.join(str(i) for i in range(1, nn + 1))}}}\n"
               "INVARIANTS XDepsFirst XBound XOnlyFallibleFail\nPROPERTIES XNoCommandAfterStop\nCHECK_DEADLOCK FALSE\n")
        res = core.tlc(os.path.join(tmp, "ex_abs"), "ExecutorMC.tla", "x.cfg", timeout=1800, files={"x.cfg": cfg}, heap="16g")
        core.tlc_must_pass(res, "Executor")
        chk.add_tlc(f"Executor (the abstract contract Walker.tla refines): all DAGs <= {nn} nodes; XDepsFirst, XBound, XOnlyFallibleFail, XNoCommandAfterStop", res)
    if not quick and prop == "C04":
        cfg = ("SPECIFICATION FairSpec\nCONSTANTS\n  N = 2\n  MaxWorkers = 2\n  SplitRegistration = TRUE\n  AllowExtCancel = TRUE\nPROPERTIES Terminates\n")
        res = core.tlc(os.path.join(tmp, "ex_live"), "Walker.tla", "live.cfg", timeout=1800, files={"live.cfg": cfg}, heap="16g")
        core.tlc_must_pass(res, "Walker liveness")
        chk.add_tlc("Walker liveness (Terminates under weak fairness), all DAGs <= 2 nodes", res, temporal=["Terminates"])


def drive(tmp, seed, count, maxn, race=False, policy=None, scenarios=None, tag="w", alldags=0):
    out = os.path.join(tmp, f"walk_{tag}.json")
    env = {"VERIF_WALK_OUT": out, "VERIF_SEED": str(seed), "VERIF_WALK_COUNT": str(count), "VERIF_WALK_MAXN": str(maxn)}
    if alldags:
        env["VERIF_WALK_ALLDAGS"] = str(alldags)
    if policy:
        env["VERIF_WALK_POLICY"] = policy
    if scenarios is not None:
        inp = os.path.join(tmp, f"walk_{tag}_in.json")
        json.dump(scenarios, open(inp, "w"))
        env["VERIF_WALK_IN"] = inp
    p = core.go_test("./walkdrv", "TestDrive", env, race=race, timeout=1500)
    text = p.stdout + p.stderr
    crash = None
    if "fatal error: concurrent map" in text:
        crash = "fatal error: concurrent map access in the real walker: " + "; ".join(re.findall(r"fatal error: [^\n]+", text)[:2])
    if not crash:
        # an unrecovered panic / fatal error in a goroutine of the real walker or pool kills the driver process: a crash of the
        # code under test iff the first non-runtime frame of the crashing goroutine is in /repo/internal
        m = re.search(r"^(panic: [^\n]+|fatal error: [^\n]+)\n(?:.*\n)*?goroutine \d+ [^\n]*\n((?:.+\n)+)", text, re.M)
        if m:
            frames = re.findall(r"^\t(/\S+:\d+)", m.group(2), re.M)
            frames = [f for f in frames if "/src/runtime/" not in f and "/go/src/" not in f and "/src/internal/" not in f]
            if frames and frames[0].startswith(core.REPO + "/internal/"):
                crash = f"{m.group(1)} at {frames[:3]} (the process died)"
    races = []
    if race and "WARNING: DATA RACE" in text:
        for blk in text.split("WARNING: DATA RACE")[1:]:
            if "runtime.closechan()" in blk and "runtime.chansend" in blk and "task_worker_pool.go" in blk:
                # Shutdown's close(jobCh) against enqueue's send: defined behaviour in Go (the send panics, enqueue
                # recovers and returns "worker pool is closed"); the race detector reports every racy close. Not a crash.
                continue
            frames = re.findall(r"grog/internal/[\w/]+\.\(?\*?[\w\[\].]+\)?\.?[\w.]*\(\)\n\s+(/\S+?/internal/\S+:\d+)", blk)
            repo_frames = [f for f in re.findall(r"(" + re.escape(core.REPO) + r"/internal/\S+:\d+)", blk)]
            if repo_frames:
                races.append(sorted(set(repo_frames))[:4])
    results = None
    if os.path.exists(out):
        results = [x for x in json.load(open(out)) if x["outcome"] != "aborted"]   # ended by the test framework on a race report (reported above)
        for x in results:
            if x["outcome"] == "stuck":
                x["ev"] = x.get("ev") or []
                x["schedule"] = x.get("schedule") or []
                x["finalsize"] = x.get("finalsize", 0)
        for x in results:
            x["schedule"] = x.get("schedule") or []
            x["ev"] = x.get("ev") or []
    elif not crash and not races:
        raise core.Infra("walker driver produced no output:\n" + text[-3000:])
    return results, crash, races, text


def validate(tmp, results, n_const=12, tag="tv"):
    traces = []
    for x in results:
        ev = x["ev"] + [{"a": "End", "n": 0, "w": x["finalsize"], "r": "", "f": False, "g": False}]
        traces.append({"cfg": x["cfg"], "ev": ev})
    cfg = ("SPECIFICATION TSpec\nCONSTANTS\n  N = %d\n  MaxWorkers = 4\n  SplitRegistration = FALSE\n  AllowExtCancel = TRUE\n"
           "  TraceFile <- TraceFileC\nINVARIANTS Diag\nCONSTRAINT HighWater\nPOSTCONDITION Accepted\nCHECK_DEADLOCK FALSE\n" % n_const)
    res = core.tlc(os.path.join(tmp, tag), "WalkerTraceMC.tla", "tv.cfg", workers=1, timeout=1500,
                   files={"walker_traces.json": json.dumps(traces), "tv.cfg": cfg},
                   java_opts="-Dtlc2.tool.queue.IStateQueue=StateDeque", heap="8g")
    if res.rc != 0 or "Model checking completed" not in res.out:
        raise core.Infra("trace validation run failed:\n" + res.out[-3000:])
    anomalies = []  # (trace index 0-based, line, kind, detail)
    seen = set()
    for line in res.out.splitlines():
        m = re.match(r'<<"INV", "(\w+)", (\d+), (\d+)>>', line)
        if m:
            key = ("INV", m.group(1), int(m.group(2)))
            if key not in seen:
                seen.add(key)
                anomalies.append((int(m.group(2)) - 1, int(m.group(3)), "INV", m.group(1)))
            continue
        m = re.match(r'<<"WHY", (\d+), (\d+), "(\w+)", \{(.*)\}>>', line)
        if m:
            whys = re.findall(r'"([^"]+)"', m.group(4))
            anomalies.append((int(m.group(1)) - 1, int(m.group(2)), "WHY", m.group(3) + ":" + ",".join(whys)))
    return res, anomalies


def scale_scenarios(seed, n, count):
    """Large layered random DAGs (dependencies within a window of 40 predecessors), all nodes selected, free-running."""
    import random
    out = []
    for i in range(count):
        rng = random.Random(seed * 1000 + i)
        deps = [[] for _ in range(n)]
        for k in range(2, n + 1):
            for _ in range(rng.randint(0, 3)):
                d = rng.randint(max(1, k - 40), k - 1)
                if d not in deps[k - 1]:
                    deps[k - 1].append(d)
            deps[k - 1].sort()
        fail = sorted(rng.sample(range(1, n + 1), rng.choice([0, 1, 3, 8])))
        out.append({"id": i + 1, "n": n, "deps": deps, "selected": list(range(1, n + 1)), "failfast": i % 2 == 1, "workers": 1 + i % 4, "canfail": fail,
                    "extcancel": -1, "policy": "free", "seed": seed * 1000 + i, "script": []})
    return out


def evaluate_invariants(x):
    """Walker.tla's invariants DepsFirst, WorkerBound, AtMostOnce and KeepGoingExact evaluated on the recorded events of one run by a
    second evaluator (used for graphs of thousands of nodes, where TLC's trace validation takes hours). Returns [(line, name)]."""
    cfg = x["cfg"]
    deps = {i + 1: set(d) for i, d in enumerate(cfg["deps"])}
    comp, started, running, slots, bad = {}, set(), 0, {}, []
    for li, e in enumerate(x["ev"], 1):
        a, n = e["a"], e["n"]
        if a == "TaskStart":
            if n in started:
                bad.append((li, "AtMostOnce"))
            started.add(n)
            if not e["f"]:     # (a task that finds its context cancelled starts no command)
                if any(comp.get(d) != "ok" for d in deps[n]):
                    bad.append((li, "DepsFirst"))
            running += 1
            if running > cfg["workers"] or slots.get(e["w"]) is not None:
                bad.append((li, "WorkerBound"))
            slots[e["w"]] = n
        elif a == "TaskEnd":
            running -= 1
            for w, m in list(slots.items()):
                if m == n:
                    slots[w] = None
        elif a == "NodeComplete":
            comp[n] = "ok" if e["f"] else "fail"
    if x["outcome"] == "returned" and not cfg["failfast"] and cfg["extcancel"] < 0 and x.get("retkind") == "done":
        for n in cfg["selected"]:
            if all(comp.get(d) == "ok" for d in deps[n]):
                if comp.get(n) not in ("ok", "fail") or (comp.get(n) == "fail") != (n in cfg["canfail"]):
                    bad.append((len(x["ev"]), "KeepGoingExact"))
                    break
            elif comp.get(n) in ("ok", "fail"):
                bad.append((len(x["ev"]), "KeepGoingExact"))
                break
    return bad


def attribute(kind, detail):
    if kind == "INV":
        return INV_PROP.get(detail, "C04")
    whys = detail.split(":", 1)[1].split(",") if ":" in detail else []
    props = [WHY_PROP.get(w, "C04") for w in whys if w]
    for p in ("C03", "C05", "C04", "INFRA"):
        if p in props:
            return p
    return "C04"


def run(chk, tmp, prop):
    quick = chk.tier == "quick"
    exhaustive(chk, tmp, prop)
    batches = [("gated", chk.seed, 400 if quick else 4000, 6 if quick else 10, False, None),
               ("free", chk.seed + 1000, 100 if quick else 1000, 8 if quick else 12, False, "free")]
    if prop in ("C04", "C05"):
        # every DAG over 5 nodes (1024 graphs; thorough: also a second pass with other failing nodes / schedules)
        batches.append(("alldags5", chk.seed + 4000, 0, 5, False, "alldags"))
        if not quick:
            batches.append(("alldags5b", chk.seed + 5000, 0, 5, False, "alldags"))
    # graphs of hundreds of nodes validated by TLC, of thousands of nodes by the second evaluator (all free-running)
    batches.append(("scale", chk.seed + 7000, 2 if quick else 4, 150 if quick else 400, False, "scale"))
    batches.append(("big", chk.seed + 8000, 2 if quick else 8, 3000, False, "big"))
    if prop == "C04":
        batches.append(("race", chk.seed + 2000, 60 if quick else 600, 6 if quick else 10, True, None))
        batches.append(("race-free", chk.seed + 3000, 40 if quick else 400, 8, True, "free"))
    chk.cov["bounds"] = {"exhaustive": "all DAGs in topological numbering up to N nodes, every dependency-closed selection, every failing subset, fail-fast on/off, 1..2 workers",
                         "driver": "random DAGs up to %d nodes, seeded gate schedules with 7 policies (random, starve/prefer the Walk loop, prefer completions, prefer/starve async cancels, free-running), external cancel at a random step in 20%% of the runs" % (6 if quick else 12)}
    chk.cov["rule"] = ("one evaluation = one execution of the real walker + pool under one gate schedule, validated step by step against Walker.tla; "
                       "distinct = distinct (graph, flags, release order); non-trivial = graph has an edge, a failing node or an external cancel")
    others = Counter()
    total_events = 0
    for tag, seed, count, maxn, race, policy in batches:
        nconst = 12
        if policy in ("scale", "big"):
            results, crash, races, text = drive(tmp, seed, 0, 0, race=race, scenarios=scale_scenarios(seed, maxn, count), tag=tag)
            nconst = maxn
        elif policy == "alldags":
            results, crash, races, text = drive(tmp, seed, count, maxn, race=race, tag=tag, alldags=maxn)
        else:
            results, crash, races, text = drive(tmp, seed, count, maxn, race=race, policy=policy, tag=tag)
        if crash and prop == "C04":
            chk.violation("walker:fatal-concurrent-map" if "concurrent map" in crash else "walker:crash:" + crash.split(" at ")[0][:60], crash, {"batch": tag, "seed": seed, "output": text[-4000:]})
        elif crash:
            others["C04:crash"] += 1
        for fr in races:
            if prop == "C04":
                chk.violation("walker:data-race:" + "|".join(os.path.basename(f) for f in fr), "data race in the real walker/pool reported by the Go race detector: " + ", ".join(fr),
                              {"batch": tag, "seed": seed, "frames": fr})
            else:
                others["C04:data-race"] += 1
        for x in [x for x in (results or []) if x["outcome"] == "stuck"]:
            # not even the bubble could settle: goroutines of the real walker / pool blocked on a lock that is never released
            if prop in ("C04", "C18"):
                chk.violation("walker:stuck-on-a-lock", f"the walk of graph deps={x['cfg']['deps']} failfast={x['cfg']['failfast']} did not settle within 90 s of wall time; "
                                                        f"blocked goroutines of the code under test:\n{x['detail'][:1500]}", x)
            else:
                others["C04:stuck"] += 1
        results = [x for x in (results or []) if x["outcome"] != "stuck"]
        if not results:
            continue
        if policy == "big":
            anomalies = [(ti, line, "INV", name) for ti, x in enumerate(results) for line, name in evaluate_invariants(x)]
            chk.cov.setdefault("second_evaluator_runs", []).append({"batch": tag, "nodes": maxn, "runs": len(results), "events": sum(len(x["ev"]) for x in results),
                                                                     "invariants": ["DepsFirst", "WorkerBound", "AtMostOnce", "KeepGoingExact"]})
        else:
            res, anomalies = validate(tmp, results, n_const=nconst, tag="tv_" + tag)
            chk.add_tlc(f"WalkerTrace validation batch {tag}", res, traces=len(results))
        chk.cov["traces_validated_against_impl"] += len(results)
        for x in results:
            total_events += len(x["ev"])
            nontrivial = any(x["cfg"]["deps"]) or x["cfg"]["canfail"] or x["cfg"]["extcancel"] >= 0
            chk.count((json.dumps(x["cfg"]["deps"]), tuple(x["cfg"]["selected"]), x["cfg"]["failfast"], x["cfg"]["workers"],
                       tuple(x["cfg"]["canfail"]), tuple(x["schedule"])) if nontrivial else None, nontrivial)
            if x["outcome"] == "hang":
                if prop == "C04" or (prop == "C18" and x["cfg"]["extcancel"] >= 0):
                    lostev = [e for e in x["ev"] if e["a"] in ("StartLookup", "CancelLookup") and not e["f"] and e["n"] in x["cfg"]["selected"]]
                    sig = "walker:hang:" + ("lost-wakeup" if lostev else "other")
                    chk.violation(sig, f"Walk never returns: graph deps={x['cfg']['deps']} selected={x['cfg']['selected']} failfast={x['cfg']['failfast']} "
                                       f"schedule={x['schedule'][:30]} (all gates released, no timer left, Walk blocked)", x)
                else:
                    others["C04:hang"] += 1
            elif x["outcome"] == "panic":
                if prop == "C04":
                    chk.violation("walker:panic", "panic in the real walker/pool: " + x["detail"][:300], x)
                else:
                    others["C04:panic"] += 1
        for ti, line, kind, detail in anomalies:
            p = attribute(kind, detail)
            x = results[ti]
            if p == "INFRA":
                raise core.Infra(f"harness/trace mismatch {detail} in trace {ti} line {line}")
            if p == prop or (prop == "C18" and p == "C05" and x["cfg"]["extcancel"] >= 0):
                ev = x["ev"][line - 1] if 0 < line <= len(x["ev"]) else {"a": "End"}
                what = detail if kind == "INV" else detail.split(":", 1)[1]
                chk.violation(f"walker:{kind}:{what}", f"{'invariant ' + detail + ' false' if kind == 'INV' else 'step rejected by Walker.tla: ' + detail} at event {line} ({ev.get('a')} n={ev.get('n')}) "
                                                      f"graph deps={x['cfg']['deps']} selected={x['cfg']['selected']} failfast={x['cfg']['failfast']} workers={x['cfg']['workers']} schedule={x['schedule'][:40]}",
                              {"trace_index": ti, "line": line, "result": x})
            else:
                others[f"{p}:{detail if kind == 'INV' else detail.split(':', 1)[1]}"] += 1
        if results:
            x = results[min(3, len(results) - 1)]
            chk.sample({"cfg": x["cfg"], "schedule": x["schedule"][:25], "events": [f"{e['a']}({e['n']})" for e in x["ev"][:40]], "outcome": x["outcome"]})
    chk.cov["events_validated"] = total_events
    chk.cov["anomalies_attributed_to_other_properties"] = dict(others)
    chk.assumptions += ["gate schedules are sampled (seeded), not exhaustive, for graphs beyond the TLC bound",
                        "runs over 3 000-node graphs are judged by a second evaluator of four Walker.tla invariants and by termination, not by TLC trace validation",
                        "the in-process task stands for the shell command: it starts only if the walker context is live, as exec.Cmd.Start does"]
