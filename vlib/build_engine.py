"""History engine (binding B2) for C01 C02 C05 C13 C14 C15 (+ C18/C20 links): spec/GrogBuild.tla is checked
exhaustively by TLC over all histories up to a depth, TLC -simulate generates longer histories
(spec/GrogBuildGen.tla), and each history is stepped through the real grog binary (built from /repo's working
tree with -tags verif): after every action the abstract state of the specification is compared with what the
implementation did -- executed commands (shell trace), per-target decisions (hook events), exit status, the
value of every declared output (value-naming bijection), taint markers, and the literal from-scratch build."""
import hashlib
import json
import os
import re
import shutil
import stat
import subprocess
import tempfile
import time
from concurrent.futures import ThreadPoolExecutor

from vlib import core

PLATFORMS = {"p0": "linux/amd64", "p1": "linux/arm64"}
CONTENT = {"c0": "zero\n", "c1": "one\n", "sA": "foo", "sAB": "foob", "sBC": "bar", "sC": "ar"}

TEMPLATES = {
    "chain": dict(Targets="ChainT", Order="ChainOrder", DeclDeps="ChainDeps", Aliases="NoAliases", AliasMenu="NoAliasMenu",
                  OutKind="ChainKind", InFiles="ChainFiles", GlobT="{}", CheckT="{}", ToolT='{"b"}'),
    "diamond": dict(Targets="DiaT", Order="DiaOrder", DeclDeps="DiaDeps", Aliases="NoAliases", AliasMenu="NoAliasMenu",
                    OutKind="DiaKind", InFiles="DiaFiles", GlobT="{}", CheckT="{}"),
    "alias": dict(Targets="AliT", Order="AliOrder", DeclDeps="AliDeps", Aliases="AliAliases", AliasMenu="AliMenu",
                  OutKind="AliKind", InFiles="AliFiles", GlobT='{"g"}', CheckT="{}"),
    "pair": dict(Targets="PairT", Order="PairOrder", DeclDeps="PairDeps", Aliases="NoAliases", AliasMenu="NoAliasMenu",
                 OutKind="PairKind", InFiles="PairFiles", GlobT="{}", CheckT="{}"),
    "check": dict(Targets="ChkT", Order="ChkOrder", DeclDeps="ChkDeps", Aliases="NoAliases", AliasMenu="NoAliasMenu",
                  OutKind="ChkKind", InFiles="ChkFiles", GlobT="{}", CheckT='{"k", "m"}'),
}


def tla_set(xs):
    return "{" + ", ".join('"%s"' % x for x in xs) + "}"


def cfg_text(template, acts, cmds, modes, sels, maxsteps, spec="Spec", invariants=None):
    t = TEMPLATES[template]
    lines = [f"SPECIFICATION {spec}", "CONSTANTS"]
    for k in ("Targets", "Order", "DeclDeps", "Aliases", "AliasMenu", "OutKind", "InFiles"):
        lines.append(f"  {k} <- {t[k]}")
    lines.append(f"  GlobT = {t['GlobT']}")
    lines.append(f"  CheckT = {t['CheckT']}")
    lines.append(f"  ToolT = {t.get('ToolT', '{}')}")
    lines.append(f"  CmdMenu = {tla_set(cmds)}")
    lines.append(f"  Acts = {tla_set(acts)}")
    lines.append(f"  Modes = {tla_set(modes)}")
    lines.append(f"  SelMenu = {tla_set(sels)}")
    lines.append("  ShiftFirst <- NameLess")
    lines.append(f"  MaxSteps = {maxsteps}")
    if invariants:
        lines.append("INVARIANTS " + " ".join(invariants))
    lines.append("CHECK_DEADLOCK FALSE")
    return "\n".join(lines) + "\n"


ALL_INVS = ["TypeOK", "CleanEq", "NoOpRebuild", "EditLocality", "AtMostOncePerBuild", "TaintConsumed", "TaintForces",
            "NoCacheAlwaysRuns", "DisabledCacheRunsAll", "SuccessImpliesPost", "FailingCheckForcesExec"]


def exhaustive(chk, tmp, name, template, acts, cmds, modes, sels, depth, invariants=None, timeout=1500):
    cfg = cfg_text(template, acts, cmds, modes, sels, depth, invariants=invariants or ALL_INVS)
    res = core.tlc(os.path.join(tmp, "ex_" + name), "GrogBuildMC.tla", "ex.cfg", timeout=timeout, files={"ex.cfg": cfg}, heap="24g")
    core.tlc_must_pass(res, f"GrogBuild exhaustive {name}")
    chk.add_tlc(f"GrogBuild exhaustive {name}: template {template}, all histories of {sorted(acts)} up to depth {depth}", res,
                invariants=invariants or ALL_INVS)
    return res


def generate(tmp, name, template, acts, cmds, modes, sels, depth, num, seed, systematic=False, canonical="off", shape=None):
    """shape: a string over B (build) and A (another action), one letter per step, e.g. "BABAB" (implies systematic, depth = len)."""
    if shape:
        systematic, depth = True, len(shape)
    cfg = cfg_text(template, acts, cmds, modes, sels, depth, spec="GSpec", invariants=["Emit"])
    cfg = cfg.replace("CONSTANTS\n", "CONSTANTS\n  Systematic = %s\n  Canonical = %s\n" % ("TRUE" if systematic else "FALSE", '"%s"\n  Shape = {%s}' % (canonical, ", ".join(str(i + 1) for i, c in enumerate(shape or "") if c == "B"))), 1)
    extra = [] if systematic else ["-simulate", f"num={num}", "-depth", str(depth + 2), "-seed", str(seed)]
    res = core.tlc(os.path.join(tmp, "gen_" + name), "GrogBuildGen.tla", "gen.cfg", workers=1, timeout=900, files={"gen.cfg": cfg},
                   extra=extra, heap="8g")
    hs = []
    for line in res.out.splitlines():
        if line.startswith('<<"TRACEJSON", '):
            body = line[len('<<"TRACEJSON", '):-2]
            hs.append(json.loads(json.loads(body)))
    if not hs:
        raise core.Infra("history generation produced nothing:\n" + res.out[-2000:])
    return res, hs


# ------------------------------------------------------------------------------------------- replay

def digest_path(p):
    """Content identity of what sits at an output path (bytes for files; names, contents, link targets and
    empty directories for directories).  None = nothing there."""
    try:
        st = os.lstat(p)
    except FileNotFoundError:
        return None
    except NotADirectoryError:
        return None
    if stat.S_ISDIR(st.st_mode):
        h = hashlib.sha256(b"dir")
        for root, dirs, fnames in os.walk(p):
            dirs.sort()
            rel = os.path.relpath(root, p)
            h.update(("D " + rel + "\n").encode())
            for fn in sorted(fnames + [d for d in dirs if os.path.islink(os.path.join(root, d))]):
                fp = os.path.join(root, fn)
                if os.path.islink(fp):
                    h.update(("L " + os.path.join(rel, fn) + " -> " + os.readlink(fp) + "\n").encode())
                else:
                    h.update(("F " + os.path.join(rel, fn) + " " + hashlib.sha256(open(fp, "rb").read()).hexdigest() + "\n").encode())
        return "dir:" + h.hexdigest()[:20]
    if stat.S_ISLNK(st.st_mode):
        return "link:" + os.readlink(p)
    return "file:" + hashlib.sha256(open(p, "rb").read()).hexdigest()[:20]


class Workspace:
    """One real workspace + cache root driven through a history."""

    def __init__(self, grog, base, header, opts):
        self.grog, self.base, self.h, self.opts = grog, base, header, opts
        self.ws = os.path.join(base, "ws")
        # layout: one package "pkg" for everything, or (multipkg) one package per target and alias, every package naming its input
        # files in1.in, in2.in (the same relative names in different packages)
        self.multi = bool(opts.get("multipkg"))
        os.makedirs(self.ws)
        toml = [f'num_workers = {opts.get("workers", 4)}']
        if opts.get("hash"):
            toml.append(f'hash_algorithm = "{opts["hash"]}"')
        open(os.path.join(self.ws, "grog.toml"), "w").write("\n".join(toml) + "\n")
        self.root = os.path.join(base, "root")
        self.trace = os.path.join(base, "trace")
        self.hook = os.path.join(base, "hook.ndjson")
        self.extdir = os.path.join(base, "ext")
        os.makedirs(os.path.join(base, "tmp"))
        self.env = dict(os.environ, GROG_ROOT=self.root, HOME=base, GROG_VERIF_TRACE=self.hook, NO_COLOR="1")
        self.env.pop("GROG_VERIF_DELAY", None)
        if opts.get("delay"):
            self.env["GROG_VERIF_DELAY"] = opts["delay"]   # "<gate>=<ms>": the hook at that gate sleeps (a slow backend operation)
        self.targets = sorted(header["targets"])
        self.aliases = sorted(header["aliases"])
        self.state = None

    # ---- layout
    def pkgname(self, t):
        return f"pk_{t}" if self.multi else "pkg"

    def pkgdir(self, t, root=None):
        return os.path.join(root or self.ws, self.pkgname(t))

    def label(self, t):
        return f"//{self.pkgname(t)}:{t}"

    def inname(self, n):
        return f"in{n[-1]}.in" if self.multi else n + ".in"

    def opath(self, t, outv, root=None):
        return os.path.join(self.pkgdir(t, root), self.outpath(t, outv))

    # ---- rendering the abstract sources
    def outpath(self, t, outv):
        k = self.h["outkind"][t]
        if k == "file":
            return f"{t}.{outv}"
        if k == "sub":
            return f"sub_{t}/{t}.{outv}"
        if k == "dir":
            return f"d_{t}_{outv}"
        if k == "pair":
            return f"pr_{t}_{outv}"      # the two declared file outputs are <this>/1 and <this>/2
        if k == "bin":
            return f"{t}.{outv}.bin"     # declared as bin_output, no other output
        return None

    def resolve(self, st, d):
        return st["alias"][d] if d in self.aliases else d

    def command(self, st, t):
        s = st["src"][t]
        c = s["cmd"]
        out = self.outpath(t, s["outv"])
        kind = self.h["outkind"][t]
        pre = [f'echo "S {t}" >> "$GROG_WORKSPACE_ROOT/../trace"']
        post = [f'echo "E {t}" >> "$GROG_WORKSPACE_ROOT/../trace"']
        if c in ("fail",):
            return "\n".join(pre + ["exit 1"])
        if c == "slow":
            return "\n".join(pre + ["sleep 3"] + post)
        body = []
        if t in self.h["checkt"] and c == "unest":
            body += [f'rm -f "$GROG_WORKSPACE_ROOT/../ext/{t}"']
        elif t in self.h["checkt"] and c != "noest" and not (c == "omit" and out):   # (the specification's "omit" of a target with outputs fails before it touches the condition)
            body += ['mkdir -p "$GROG_WORKSPACE_ROOT/../ext"', f'echo ok > "$GROG_WORKSPACE_ROOT/../ext/{t}"']
        if t in self.h.get("toolt", []) and out:
            # the undeclared tool: when it is broken the same command exits 0 without its declared output
            body.append(f'if [ -f "$GROG_WORKSPACE_ROOT/../ext/{t}.broken" ]; then rm -rf "{out}"; echo "E {t}" >> "$GROG_WORKSPACE_ROOT/../trace"; exit 0; fi')
        body.append(f": command version {c}")     # every command version is a different command text (also for targets without outputs)
        if c == "omit":
            if out:
                body.append(f'rm -rf "{out}"')
            return "\n".join(pre + body + post)
        if out is None:
            return "\n".join(pre + body + post)
        tmpf = f'"$GROG_WORKSPACE_ROOT/../tmp/{t}.$$"'
        if c == "const":
            body.append(f'echo "const {t} {s["outv"]}" > {tmpf}')
        else:
            ins = sorted(self.h["infiles"][t])
            dump = ['dump() { if [ -d "$1" ]; then (cd "$1" && find . | sort && find . -type f | sort | xargs cat); else cat "$1"; fi; }']
            lines = [f'echo "{t} {c} {s["outv"]}"']
            if t in self.h["globt"]:
                lines.append(f'for f in {"in" if self.multi else t}?.in; do if [ -f "$f" ]; then echo "$f"; cat "$f"; fi; done')
            else:
                for n in ins:
                    lines.append(f'echo "{n}.in"; if [ -f "{self.inname(n)}" ]; then cat "{self.inname(n)}"; else echo "<declared, absent>"; fi')
            for d in sorted(self.h["decldeps"][t]):
                rd = self.resolve(st, d)
                dout = self.outpath(rd, st["src"][rd]["outv"])
                if dout:
                    if self.multi:
                        dout = f"../{self.pkgname(rd)}/{dout}"
                    lines.append(f'echo "dep {rd}"; dump "{dout}"')
            body += dump + ["{ " + "; ".join(lines) + "; } > " + tmpf]
        if kind == "pair":
            # output i = function of (command, declared outputs, dependencies, input file i): exchanging the inputs exchanges the outputs
            ins = sorted(self.h["infiles"][t])
            assert not self.h["decldeps"][t], "pair targets have no dependencies (their outputs are per-input functions)"
            body.append(f'mkdir -p "{out}"')
            for i in (1, 2):
                if c == "const" or len(ins) < 2:
                    body.append(f'sha256sum < {tmpf} > "{out}/{i}"')
                else:
                    body.append(f'{{ echo "{t} {c} {s["outv"]}"; if [ -f "{self.inname(ins[i - 1])}" ]; then cat "{self.inname(ins[i - 1])}"; else echo "<declared, absent>"; fi; }} | sha256sum > "{out}/{i}"')
        elif kind == "bin":
            body += [f'sha256sum < {tmpf} > "{out}"', f'chmod +x "{out}"']
        elif kind == "file":
            body.append(f'sha256sum < {tmpf} > "{out}"')
        elif kind == "sub":
            body += [f'mkdir -p "sub_{t}"', f'sha256sum < {tmpf} > "{out}"']
        else:
            body += [f'rm -rf "{out}"', f'mkdir -p "{out}/nested/deep" "{out}/emptydir"', f'sha256sum < {tmpf} > "{out}/data"',
                     f'cp "{out}/data" "{out}/nested/copy"', f': > "{out}/empty"', f'echo info > "{out}/nested/deep/info"',
                     f'ln -s data "{out}/link"', f'chmod +x "{out}/nested/copy"']
        body.append(f"rm -f {tmpf}")
        return "\n".join(pre + body + post)

    def render(self, st):
        targets = []
        for t in self.targets:
            s = st["src"][t]
            d = {"name": t, "command": self.command(st, t)}
            ins = sorted(self.h["infiles"][t])
            if t in self.h["globt"]:
                d["inputs"] = ["in?.in" if self.multi else f"{t}?.in"]
            elif ins:
                d["inputs"] = [self.inname(n) for n in ins]
            out = self.outpath(t, s["outv"])
            if out:
                d["outputs"] = [("dir::" + out) if self.h["outkind"][t] == "dir" else out]
                if self.h["outkind"][t] == "file" and self.targets.index(t) % 2 == 1:
                    d["outputs"] = ["./" + out]      # the same path in a spelling that is not clean (every second file output)
                if self.h["outkind"][t] == "pair":
                    d["outputs"] = [out + "/1", out + "/2"]
                if self.h["outkind"][t] == "bin":
                    del d["outputs"]
                    d["bin_output"] = out
            deps = sorted(self.h["decldeps"][t])
            if deps:
                d["dependencies"] = [self.label(x) if self.multi else ":" + x for x in deps]
            if s["nc"]:
                d["tags"] = ["no-cache"]
            d["fingerprint"] = {"v": s["fp"]}
            # every target carries a timeout (not part of the cache key): a generous one that never fires, or 300 ms under the 3 s command
            # (two histories out of three; the third leaves targets without one)
            if s["cmd"] == "slow":
                d["timeout"] = "300ms"
            elif self.opts.get("timeouts", True):
                d["timeout"] = "120s"
            if t in self.h["checkt"]:
                if self.h["outkind"][t] == "none":
                    d["output_checks"] = [{"command": f'test -f "$GROG_WORKSPACE_ROOT/../ext/{t}"'}]
                else:
                    # the same condition checked in two styles: decided by what the command prints, or decided by its exit status
                    # although it prints the expected text
                    if self.opts.get("check_style", 0) == 0:
                        d["output_checks"] = [{"command": f'cat "$GROG_WORKSPACE_ROOT/../ext/{t}"', "expected_output": "ok"}]
                    else:
                        d["output_checks"] = [{"command": f'echo ok; test -f "$GROG_WORKSPACE_ROOT/../ext/{t}"', "expected_output": "ok"}]
            targets.append(d)
        if self.multi:
            pkgs = {self.pkgname(d["name"]): {"targets": [d]} for d in targets}
            for x in self.aliases:
                pkgs[self.pkgname(x)] = {"targets": [], "aliases": [{"name": x, "actual": self.label(st["alias"][x])}]}
            return pkgs
        pkg = {"targets": targets}
        if self.aliases:
            pkg["aliases"] = [{"name": x, "actual": ":" + st["alias"][x]} for x in self.aliases]
        return {"pkg": pkg}

    def write_sources(self, st, root=None):
        for t in self.targets:
            os.makedirs(self.pkgdir(t, root), exist_ok=True)
            for n, c in st["files"][t].items() if isinstance(st["files"][t], dict) else []:
                p = os.path.join(self.pkgdir(t, root), self.inname(n))
                if c == "absent":
                    if os.path.exists(p):
                        os.remove(p)
                else:
                    if not os.path.exists(p) or open(p).read() != CONTENT[c]:
                        open(p, "w").write(CONTENT[c])
        for name, pkg in self.render(st).items():
            os.makedirs(os.path.join(root or self.ws, name), exist_ok=True)
            json.dump(pkg, open(os.path.join(root or self.ws, name, "BUILD.json"), "w"), indent=1)

    # ---- running grog
    def grog_cmd(self, args, cwd=None, env=None, timeout=150):
        """Runs grog. A process that is still there after `timeout` seconds is classified before it is killed: blocked
        (almost no CPU consumed -> it is waiting for something that will not happen) or merely slow (-> infrastructure)."""
        proc = subprocess.Popen([self.grog] + args, cwd=cwd or self.ws, env=env or self.env, stdout=subprocess.PIPE, stderr=subprocess.PIPE, text=True,
                                start_new_session=True)
        try:
            out, err = proc.communicate(timeout=timeout)
            return subprocess.CompletedProcess(args, proc.returncode, out, err)
        except subprocess.TimeoutExpired:
            cpu = None
            try:
                f = open(f"/proc/{proc.pid}/stat").read().rsplit(")", 1)[1].split()
                cpu = (int(f[11]) + int(f[12])) / os.sysconf("SC_CLK_TCK")
            except Exception:
                pass
            try:
                os.killpg(proc.pid, 9)
            except Exception:
                proc.kill()
            proc.communicate()
            self.last_timeout = {"cpu_s": cpu, "timeout_s": timeout, "blocked": cpu is not None and cpu < 10}
            return None

    def cache_dir(self):
        ds = [d for d in os.listdir(self.root)] if os.path.isdir(self.root) else []
        ds = [d for d in ds if os.path.isdir(os.path.join(self.root, d, "cache"))]
        return os.path.join(self.root, ds[0], "cache") if ds else None

    def tainted(self):
        c = self.cache_dir()
        tdir = os.path.join(c, "taint") if c else None
        out = set()
        if tdir and os.path.isdir(tdir):
            for rootd, _, fs in os.walk(tdir):
                for f in fs:
                    if not f.startswith("tmp-"):
                        out.add(f.split(":")[-1])
        return out

    def build_args(self, act, st):
        args = ["build"]
        if not act["cacheOn"]:
            args.append("--enable-cache=false")
        if act["mode"] == "minimal":
            args.append("--load-outputs=minimal")
        args += ["--platform", PLATFORMS[st["platform"]]]
        args.append("//..." if act["s"] == "ALL" else self.label(act["s"]))
        return args


def clean_build_digests(wsobj, st, act, tag):
    """The literal from-scratch build: same sources, empty cache, no prior outputs, same external world."""
    base = tempfile.mkdtemp(prefix="clean.", dir=wsobj.base)
    try:
        ws = os.path.join(base, "ws")
        os.makedirs(ws)
        shutil.copy(os.path.join(wsobj.ws, "grog.toml"), ws)
        wsobj.write_sources(st, root=ws)
        os.makedirs(os.path.join(base, "tmp"))
        if os.path.isdir(wsobj.extdir):
            shutil.copytree(wsobj.extdir, os.path.join(base, "ext"))
        env = dict(wsobj.env, GROG_ROOT=os.path.join(base, "root"), HOME=base)
        env.pop("GROG_VERIF_TRACE", None)
        a = dict(act, cacheOn=True, mode="all")
        p = wsobj.grog_cmd(wsobj.build_args(a, st), cwd=ws, env=env)
        ok = p is not None and p.returncode == 0
        dig = {}
        for t in wsobj.targets:
            out = wsobj.outpath(t, st["src"][t]["outv"])
            dig[t] = digest_path(wsobj.opath(t, st["src"][t]["outv"], root=ws)) if out else None
        return ok, dig
    finally:
        shutil.rmtree(base, ignore_errors=True)


def is_value(s):
    return s.startswith('<<"v"')


def replay(grog, history, opts, scratch_root, literal_clean=True):
    """Steps one TLC-generated history through the real binary. Returns (mismatches, stats)."""
    base = tempfile.mkdtemp(prefix="hist.", dir=scratch_root)
    mism = []
    pipe = []
    stats = {"builds": 0, "actions": 0, "executions": 0, "hits": 0, "pipe": pipe}
    try:
        h = history["header"]
        if isinstance(h.get("alias0"), list):
            h["alias0"] = {}
        W = Workspace(grog, base, h, opts)
        init = {"src": {t: {"cmd": "copy", "fp": "f0", "nc": False, "outv": "o0"} for t in W.targets},
                "files": {t: dict(h["files0"][t]) if isinstance(h["files0"][t], dict) else {} for t in W.targets},
                "alias": dict(h["alias0"]), "platform": "p0"}
        W.write_sources(init)
        prev = init
        naming, rev = {}, {}
        last_keys = {}

        def note(i, kind, **kw):
            mism.append(dict(step=i, kind=kind, **kw))

        for i, st in enumerate(history["steps"]):
            if isinstance(st.get("alias"), list):
                st["alias"] = {}
            for t in W.targets:
                if isinstance(st["files"][t], list):
                    st["files"][t] = {}
            act = st["act"]
            stats["actions"] += 1
            kind = act["kind"]
            if kind in ("edit", "platform"):
                # an output renamed: the harness clears what sits at the newly declared path (the model says absent)
                for t in W.targets:
                    if st["src"][t]["outv"] != prev["src"][t]["outv"]:
                        newp = W.opath(t, st["src"][t]["outv"])
                        if os.path.isdir(newp) and not os.path.islink(newp):
                            shutil.rmtree(newp)
                        elif os.path.lexists(newp):
                            os.remove(newp)
                W.write_sources(st)
            elif kind == "relocate":
                # same sources at another absolute path; the local cache directory (named after the workspace path) is carried over
                old_ws, old_cache = W.ws, W.cache_dir()
                n_moves = getattr(W, "moves", 0) + 1
                W.moves = n_moves
                new_ws = os.path.join(base, "elsewhere" * (n_moves % 2) + f"ws{n_moves}")
                os.rename(old_ws, new_ws)
                W.ws = new_ws
                if old_cache:
                    newdir = os.path.join(W.root, hashlib.sha256(new_ws.encode()).hexdigest()[:16] + "-" + os.path.basename(new_ws))
                    os.rename(os.path.dirname(old_cache), newdir)
            elif kind == "taint":
                p = W.grog_cmd(["taint", "//..." if act["t"] == "ALL" else W.label(act["t"])])
                if p is None or p.returncode != 0:
                    note(i, "taint-command-failed", t=act["t"], err=(p.stderr[-300:] if p else "timeout"))
            elif kind == "perturb":
                t = act["t"]
                path = W.opath(t, st["src"][t]["outv"])
                v = st["ws"][t]
                if not os.path.lexists(path):
                    note(i, "harness-perturb-target-missing", t=t)
                elif v == '<<"absent">>':
                    shutil.rmtree(path) if os.path.isdir(path) else os.remove(path)
                elif v == '<<"garbage">>':
                    if os.path.isdir(path):
                        open(os.path.join(path, "1" if W.h["outkind"][t] == "pair" else "data"), "a").write("garbage")
                    else:
                        open(path, "a").write("garbage")
                elif v == '<<"parentgone">>':
                    shutil.rmtree(os.path.dirname(path))
                elif v.startswith('<<"stale"'):
                    open(os.path.join(path, "nested", "stale_extra"), "w").write("stale")
                elif v == '<<"notdir">>':
                    shutil.rmtree(path)
                    open(path, "w").write("a file where the directory should be")
            elif kind == "breakext":
                p = os.path.join(W.extdir, act["t"])
                if os.path.exists(p):
                    os.remove(p)
                else:
                    note(i, "harness-ext-missing", t=act["t"])
            elif kind == "breaktool":
                os.makedirs(W.extdir, exist_ok=True)
                open(os.path.join(W.extdir, act["t"] + ".broken"), "w").close()
            elif kind == "corruptresults":
                tdir = os.path.join(W.cache_dir() or "", "target")
                nfiles = 0
                for rootd, _, fs in os.walk(tdir):
                    for f in fs:
                        open(os.path.join(rootd, f), "w").write("this is not a target result\n")
                        nfiles += 1
                if not nfiles:
                    note(i, "harness-no-result-files")
            elif kind == "dropblob":
                t = act["t"]
                path = W.opath(t, st["src"][t]["outv"])
                cas = os.path.join(W.cache_dir() or "", "cas")
                want = open(os.path.join(path, "1" if W.h["outkind"][t] == "pair" else "data") if os.path.isdir(path) else path, "rb").read()
                hit = False
                for f in os.listdir(cas) if os.path.isdir(cas) else []:
                    fp = os.path.join(cas, f)
                    if os.path.isfile(fp) and os.path.getsize(fp) == len(want) and open(fp, "rb").read() == want:
                        os.remove(fp)
                        hit = True
                if not hit:
                    note(i, "harness-blob-not-found", t=t)
            elif kind == "build":
                stats["builds"] += 1
                for fpath in (W.trace, W.hook):
                    open(fpath, "w").close()
                benv = None
                if opts.get("delay_alt") and stats["builds"] % 2 == 0:
                    benv = dict(W.env, GROG_VERIF_DELAY=opts["delay_alt"])    # a different schedule in every other build of the history
                p = W.grog_cmd(W.build_args(act, st), env=benv)
                if p is None:
                    info = getattr(W, "last_timeout", {})
                    # still there after the time limit (hundreds of times what these builds take): blocked (no CPU consumed) or spinning
                    kind_t = "build-hang" if info.get("blocked") else ("build-spin" if (info.get("cpu_s") or 0) >= 30 else "build-timeout")
                    note(i, kind_t, act=act, mode=act["mode"], model_ok=act["ok"], dec=act["dec"], **info)
                    break
                if p.returncode not in (0, 1) or re.search(r"^(panic: |fatal error: )", p.stderr + p.stdout, re.M):
                    head = re.search(r"^(panic: [^\n]*|fatal error: [^\n]*)", p.stderr + p.stdout, re.M)
                    note(i, "build-crash", act=act, mode=act["mode"], rc=p.returncode, what=head.group(1) if head else f"exit status {p.returncode}",
                         stderr_tail=(p.stderr + p.stdout)[-800:])
                    break
                lines = open(W.trace).read().split()
                tl = open(W.trace).read().splitlines()
                started = [l.split()[1] for l in tl if l.startswith("S ")]
                execd = sorted(set(started))
                twice = sorted({t for t in started if started.count(t) > 1})
                stats["executions"] += len(started)
                ok = p.returncode == 0
                events = []
                for l in open(W.hook):
                    try:
                        events.append(json.loads(l))
                    except ValueError:
                        pass
                ctx = dict(mode=act["mode"], cacheOn=act["cacheOn"], sel=act["s"], stderr_tail=(p.stderr + p.stdout)[-600:])
                if execd != sorted(act["exec"]):
                    note(i, "exec-set", real=execd, model=sorted(act["exec"]), why={t: act["why"][t] for t in W.targets}, dec=act["dec"], **ctx)
                # a dependency whose cached outputs cannot be restored is re-run for its dependants (minimal mode): the specification folds
                # the dependants one after the other (one re-run), the implementation lets concurrent dependants each re-run it. The
                # properties exempt cache faults from "at most once", so such targets are left out of the comparison
                refaulted = {t for t in W.targets if "rerun-for-dependant" in act["why"][t]}
                if sorted(set(twice) - refaulted) != sorted(set(act["twice"]) - refaulted):
                    note(i, "exec-twice", real=twice, model=sorted(act["twice"]), **ctx)
                elif set(twice) & refaulted - set(act["twice"]):
                    stats["dup_reruns"] = stats.get("dup_reruns", 0) + 1
                if ok != act["ok"]:
                    note(i, "status", real_ok=ok, model_ok=act["ok"], failed=sorted(act["failed"]), dec=act["dec"], **ctx)
                # failed targets are named
                if not ok:
                    text = p.stderr + p.stdout
                    for t in act["failed"]:
                        if W.label(t) not in text:
                            note(i, "failed-target-not-named", t=t, **ctx)
                # decisions from hook events
                hits = {e["t"].split(":")[-1] for e in events if e.get("k") == "t.hit"}
                looked = {e["t"].split(":")[-1] for e in events if e.get("k") == "t.lookup"}
                stats["hits"] += len(hits)
                for t in W.targets:
                    d = act["dec"][t]
                    if d == "hit" and t not in hits:
                        note(i, "decision", t=t, model="hit", real="no hit event", why=act["why"][t], **ctx)
                    if d in ("skipped", "unselected") and t in looked:
                        note(i, "decision", t=t, model=d, real="target was looked up", **ctx)
                    if d in ("exec-ok", "exec-fail") and t in hits and "rerun-for-dependant" not in act["why"][t]:
                        # (a minimal-mode hit that is re-run in place for an executing dependant has both a hit event and a command)
                        note(i, "decision", t=t, model=d, real="hit", why=act["why"][t], **ctx)
                for e in events:
                    if e.get("k") == "t.lookup":
                        last_keys[e["t"].split(":")[-1]] = e.get("key")
                # the build's event trace for Pipeline.tla (dependencies with aliases resolved)
                if not mism:
                    deps = {t: sorted({W.resolve(st, d) for d in h["decldeps"][t]}) for t in W.targets}
                    pev = []
                    for e in sorted(events, key=lambda e: e.get("seq", 0)):
                        k = e.get("k", "")
                        if not k.startswith("t."):
                            continue
                        t = e.get("t", "").split(":")[-1]
                        b = e.get("found", e.get("pass", e.get("tainted", e.get("ok", False))))
                        pev.append({"k": k, "t": t, "b": bool(b), "d": e.get("d", "").split(":")[-1]})
                    pipe.append({"hdr": {"deps": deps, "workers": opts.get("workers", 4), "cacheOn": act["cacheOn"], "mode": act["mode"],
                                         "nocache": sorted(t for t in W.targets if st["src"][t]["nc"])}, "ev": pev})
                # outputs
                real = {}
                for t in W.targets:
                    out = W.outpath(t, st["src"][t]["outv"])
                    real[t] = digest_path(W.opath(t, st["src"][t]["outv"])) if out else None
                for t in W.targets:
                    mv, rv = st["ws"][t], real[t]
                    if not W.outpath(t, st["src"][t]["outv"]):
                        continue
                    if mv == '<<"absent">>':
                        if rv is not None:
                            note(i, "ws-value", t=t, model="absent", real=rv, **ctx)
                    elif is_value(mv):
                        if rv is None:
                            note(i, "ws-value", t=t, model="present", real="absent", **ctx)
                        else:
                            if naming.get(mv, rv) != rv:
                                note(i, "ws-value", t=t, model="same value as before", real="different bytes", **ctx)
                            elif rev.get(rv, mv) != mv:
                                note(i, "ws-value", t=t, model="a new value", real="bytes of an older value", detail=rev[rv][:120], **ctx)
                            naming.setdefault(mv, rv)
                            rev.setdefault(rv, mv)
                if W.tainted() != set(st["taint"]):
                    # the marker is cleared asynchronously; give it a moment before judging
                    time.sleep(0.3)
                    if W.tainted() != set(st["taint"]):
                        note(i, "taint-set", real=sorted(W.tainted()), model=sorted(st["taint"]), **ctx)
                if literal_clean and ok and act["ok"] and act["mode"] == "all":
                    cok, cdig = clean_build_digests(W, st, act, i)
                    if not cok:
                        note(i, "clean-build-failed", **ctx)
                    else:
                        sel = set(act["sel"])
                        for t in W.targets:
                            if t in sel and W.outpath(t, st["src"][t]["outv"]) and cdig[t] != real[t]:
                                note(i, "clean-literal", t=t, incremental=real[t], clean=cdig[t], **ctx)
            prev = st
            if mism and any(m["kind"] != "taint-set" for m in mism):
                break   # reality has left the specification's state: later steps of this history say nothing
                        # (a wrong taint marker alone is followed further: what the next build does with it is the point of C05 / C13)
        return mism, stats
    finally:
        subprocess.run(["chmod", "-R", "u+rwx", base], capture_output=True)
        shutil.rmtree(base, ignore_errors=True)


def attribute(m):
    """Which properties a mismatch between specification and implementation belongs to (a set)."""
    a = attribute1(m)
    if m["kind"] == "status" and m["real_ok"] and not m["model_ok"]:
        return {"C05", "C14"}      # the build claims success although a target failed: failure not reported AND success without postconditions
    if m["kind"] in ("build-hang", "build-spin", "build-crash"):
        return {"C04"}     # the build does not return, or dies from an internal crash
    if m["kind"] == "exec-set" and m.get("mode") != "minimal" and set(m["real"]) - set(m["model"]):
        # a target executed although the specification serves it from the cache: not minimal re-execution (C02); when targets were
        # forced to execute in that build (taint, no-cache, cache off) also a dependant invalidated although nothing changed (C13)
        forced = any(set(w) & {"tainted", "no-cache", "cache-disabled"} for w in m.get("why", {}).values())
        return {"C02", "C13"} if forced else {"C02"}
    if m["kind"] == "exec-twice":
        # more executions of one target in one build than the specification allows (it allows re-runs after cache faults only)
        return {"C03", "C15"} if m.get("mode") == "minimal" else {"C03"}
    return {a}


def attribute1(m):
    k = m["kind"]
    mode = m.get("mode")
    if k.startswith("harness-") or k in ("taint-command-failed", "build-timeout", "clean-build-failed"):
        return "INFRA"
    if k in ("ws-value", "clean-literal"):
        return "C15" if mode == "minimal" else "C01"
    if k == "taint-set":
        return "C13"
    if k == "failed-target-not-named":
        return "C05"
    if k == "exec-twice":
        return "C15" if mode == "minimal" else "C03"
    if k == "status":
        if m["real_ok"] and not m["model_ok"]:
            return "C14"
        return "C15" if mode == "minimal" else "C02"
    if k in ("exec-set", "decision"):
        if k == "exec-set":
            missing = set(m["model"]) - set(m["real"])
            extra = set(m["real"]) - set(m["model"])
            whys = set()
            for t in missing:
                whys |= set(m["why"].get(t, []))
        else:
            missing = {m["t"]} if m["model"].startswith("exec") else set()
            extra = {m["t"]} if m["model"] == "hit" else set()
            whys = set(m.get("why", []))
        if mode == "minimal":
            return "C15"
        if missing:
            if whys & {"tainted", "no-cache", "cache-disabled"}:
                return "C13"
            if "failing-check" in whys:
                return "C14"
            if "no-result" in whys:
                return "C01"   # a cached result was served although the state differs from the one that produced it
            return "C02"
        return "C02"
    return "C02"


PIPE_PROP = {"started-before-dependency-finished": {"C03"}, "more-tasks-than-num_workers": {"C03"}, "command-started-twice": {"C03"}, "target-hashed-twice": {"C03"},
             "hit-without-result": {"C01", "C02"}, "hit-although-tainted": {"C13"}, "hit-although-check-fails": {"C14"}, "hit-although-cache-disabled": {"C13"},
             "hit-although-no-cache": {"C13"}, "command-before-dependency-outputs-loaded": {"C15"}, "result-written-for-failed-or-unfinished-target": {"C05", "C14"}, "outputs-stored-for-failed-or-unfinished-target": {"C05", "C14"}}
_pipe_seq = [0]


def validate_pipeline(chk, tmp, traces, prop, label, others):
    """Every build's hook events must be a behaviour of spec/Pipeline.tla (the per-target pipeline automaton)."""
    if not traces:
        return
    _pipe_seq[0] += 1
    cfg = "SPECIFICATION Spec\nCONSTANTS\n  Targets <- AllTargets\n  TraceFile <- TraceFileC\nINVARIANTS Diag\nCONSTRAINT HighWater\nPOSTCONDITION Accepted\nCHECK_DEADLOCK FALSE\n"
    res = core.tlc(os.path.join(tmp, f"pipe_{_pipe_seq[0]}"), "PipelineMC.tla", "p.cfg", workers=1, timeout=1500,
                   files={"p.cfg": cfg, "pipeline_traces.json": json.dumps(traces)}, java_opts="-Dtlc2.tool.queue.IStateQueue=StateDeque", heap="8g")
    if res.rc != 0 or "Model checking completed" not in res.out:
        raise core.Infra("pipeline trace validation failed:\n" + res.out[-2500:])
    chk.add_tlc(f"Pipeline trace validation: {label}", res, builds=len(traces))
    chk.cov["pipeline_builds_validated"] = chk.cov.get("pipeline_builds_validated", 0) + len(traces)
    for line in res.out.splitlines():
        m = re.match(r'<<"WHY", (\d+), (\d+), "([\w.]+)", \{(.*)\}>>', line)
        if not m:
            continue
        whys = re.findall(r'"([^"]+)"', m.group(4))
        tr = traces[int(m.group(1)) - 1]
        props = set()
        for w in whys:
            props |= PIPE_PROP.get(w, {"C03"} if "out-of-order" in w else {"C02"})
        ev = tr["ev"][int(m.group(2)) - 1]
        if prop in props:
            chk.violation("pipeline:" + ",".join(whys), f"{label}: event {m.group(2)} {ev} of a build (workers={tr['hdr']['workers']}, mode={tr['hdr']['mode']}, cacheOn={tr['hdr']['cacheOn']}) "
                          f"is not a step of Pipeline.tla: {whys}; events so far {[(e['k'], e['t']) for e in tr['ev'][: int(m.group(2))]][-12:]}", {"trace": tr, "line": int(m.group(2))})
        else:
            for pp in props:
                others[pp + ":pipeline:" + ",".join(whys)] = others.get(pp + ":pipeline:" + ",".join(whys), 0) + 1


def run_histories(chk, tmp, grog, histories, prop, literal_clean, label, opts_of=None):
    others = {}
    t0 = time.time()

    # templates with an output check next to an output are replayed once per check style (see Workspace.render)
    styles = [0, 1] if histories and any(histories[0]["header"]["outkind"].get(t) != "none" for t in histories[0]["header"]["checkt"]) else [0]
    histories = [h for h in histories for _ in styles]

    def one(ih):
        i, h = ih
        opts = dict(opts_of(i) if opts_of else {"workers": 1 + i % 4, "hash": ["", "sha256"][i % 2]})
        opts["check_style"] = styles[i % len(styles)]
        opts.setdefault("timeouts", (i // len(styles)) % 3 != 0)
        opts.setdefault("multipkg", (i // len(styles)) % 3 == 1)      # every third history: one package per target, same input file names everywhere
        return replay(grog, h, opts, tmp, literal_clean=literal_clean)

    with ThreadPoolExecutor(core.NCPU) as ex:
        results = list(ex.map(one, enumerate(histories)))
    tot = {"builds": 0, "actions": 0, "executions": 0, "hits": 0}
    pipe_traces = []
    for (mism, stats), h in zip(results, histories):
        for k in tot:
            tot[k] += stats[k]
        pipe_traces += stats.get("pipe", [])
        chk.cov["traces_validated_against_impl"] += 1
        acts = tuple((s["act"]["kind"], s["act"].get("t") or s["act"].get("s")) for s in h["steps"])
        chk.count(acts, nontrivial=stats["builds"] >= 2)
        seen = set()
        for m in mism:
            ps = attribute(m)
            if "INFRA" in ps:
                raise core.Infra(f"history driver problem: {m}")
            sig = f"build:{m['kind']}:" + (m.get("t") or "") + ":" + ",".join(sorted(set(m.get("why", []) if isinstance(m.get("why"), list) else [])))
            if m["kind"] == "exec-set":
                sig = f"build:exec-set:missing={sorted(set(m['model']) - set(m['real']))}:extra={sorted(set(m['real']) - set(m['model']))}"
            if prop in ps:
                if sig in seen:
                    continue
                seen.add(sig)
                steps = [(s["act"]["kind"], s["act"].get("t") or s["act"].get("s"), s["act"].get("cacheOn"), s["act"].get("mode")) for s in h["steps"][: m["step"] + 1]]
                chk.violation(sig, f"{label}: after {steps} the implementation deviates from GrogBuild.tla: " + json.dumps({k: v for k, v in m.items() if k not in ('stderr_tail',)})[:700],
                              {"history": h, "mismatch": m})
            else:
                for p in ps:
                    others[p + ":" + m["kind"]] = others.get(p + ":" + m["kind"], 0) + 1
    validate_pipeline(chk, tmp, pipe_traces, prop, label, others)
    chk.cov.setdefault("replay", {})[label] = dict(tot, histories=len(histories), wall_s=round(time.time() - t0, 1))
    chk.cov.setdefault("anomalies_attributed_to_other_properties", {}).update(others)
    if histories:
        h = histories[0]
        chk.sample({"template": label, "history": [dict(kind=s["act"]["kind"], t=s["act"].get("t") or s["act"].get("s"),
                                                          exec=s["act"].get("exec"), ok=s["act"].get("ok")) for s in h["steps"]]})
