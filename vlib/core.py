"""Shared machinery of the grog verification framework: scratch dirs, Go builds from /repo's working
tree (always with -tags verif), TLC runs, evidence files, verdict plumbing.

Verdict discipline (DESIGN.md section 6): exit 0 = held, exit 1 + VIOLATION line = a violation observed on
the real code, exit 2 = infrastructure problem (never accompanied by a VIOLATION line)."""
import contextlib
import json
import os
import re
import shutil
import subprocess
import sys
import tempfile
import time

VERIF = os.path.dirname(os.path.dirname(os.path.abspath(__file__)))
REPO = os.environ.get("VERIF_REPO", "/repo")
SPEC = os.path.join(VERIF, "spec")
HARNESS = os.path.join(VERIF, "harness")
EVIDENCE = os.path.join(VERIF, "evidence")
REPLAYS = os.path.join(VERIF, "replays")
GO = "go1.26"
NCPU = os.cpu_count() or 4


class Infra(Exception):
    """Infrastructure failure: exit 2, never a violation."""


def goenv(extra=None):
    env = dict(os.environ)
    env.update(GOFLAGS="-mod=mod", GOPROXY="off", GOSUMDB="off", GOTOOLCHAIN="local", CGO_ENABLED=env.get("CGO_ENABLED", "0"))
    if extra:
        env.update(extra)
    return env


def log(*a):
    print(*a, file=sys.stderr, flush=True)


@contextlib.contextmanager
def scratch(prefix="verif."):
    d = tempfile.mkdtemp(prefix=prefix, dir=os.environ.get("VERIF_TMP", "/tmp"))
    try:
        yield d
    finally:
        subprocess.run(["chmod", "-R", "u+rwx", d], capture_output=True)
        shutil.rmtree(d, ignore_errors=True)


def run(cmd, cwd=None, env=None, timeout=None, check=False, input=None):
    try:
        p = subprocess.run(cmd, cwd=cwd, env=env, capture_output=True, text=True, timeout=timeout, input=input)
    except subprocess.TimeoutExpired as e:
        raise Infra(f"timeout after {timeout}s: {' '.join(map(str, cmd))[:200]}") from e
    if check and p.returncode != 0:
        raise Infra(f"command failed ({p.returncode}): {' '.join(map(str, cmd))[:300]}\n{p.stdout[-3000:]}\n{p.stderr[-3000:]}")
    return p


# ---------------------------------------------------------------------------------------------- Go builds

def _sync_harness_mod():
    """harness/go.mod and go.sum are generated from /repo's so that the harness always resolves the same
    dependency versions as the tree under test."""
    src = open(os.path.join(REPO, "go.mod")).read()
    src = re.sub(r"^module\s+\S+", "module grog/verifharness", src, count=1, flags=re.M)
    src += "\nrequire grog v0.0.0\n\nreplace grog => %s\n" % REPO
    src += "\nrequire pgregory.net/rapid v1.3.0\n" if os.environ.get("VERIF_RAPID") else ""
    for name, content in (("go.mod", src), ("go.sum", open(os.path.join(REPO, "go.sum")).read())):
        path = os.path.join(HARNESS, name)
        try:
            if open(path).read() == content:
                continue
        except FileNotFoundError:
            pass
        tmp = path + ".%d.tmp" % os.getpid()
        with open(tmp, "w") as f:
            f.write(content)
        os.replace(tmp, path)


def build_harness(out_dir, race=False):
    """Builds the Go harness binary against /repo's current working tree with hooks on."""
    _sync_harness_mod()
    out = os.path.join(out_dir, "h-race" if race else "h")
    cmd = [GO, "build", "-tags", "verif", "-o", out]
    env = goenv()
    if race:
        cmd.insert(2, "-race")
        env["CGO_ENABLED"] = "1"
    p = run(cmd + ["./cmd/h"], cwd=HARNESS, env=env, timeout=900)
    if p.returncode != 0:
        raise Infra("harness build failed (does /repo compile with -tags verif?):\n" + p.stdout[-4000:] + p.stderr[-4000:])
    return out


def build_grog(out_dir, overlay=None):
    """Builds the grog CLI from /repo's current working tree with hooks on."""
    out = os.path.join(out_dir, "grog")
    cmd = [GO, "build", "-tags", "verif", "-o", out]
    if overlay:
        cmd += ["-overlay", overlay]
    p = run(cmd + ["."], cwd=REPO, env=goenv(), timeout=900)
    if p.returncode != 0:
        raise Infra("grog build failed:\n" + p.stdout[-4000:] + p.stderr[-4000:])
    return out


def go_test(pkg, run_name, env_extra=None, race=False, timeout=1200, extra_args=None):
    """Runs one harness test driver (used where testing/synctest or -race is needed)."""
    _sync_harness_mod()
    env = goenv(env_extra)
    cmd = [GO, "test", "-tags", "verif", "-count=1", "-vet=off", "-timeout", f"{timeout}s", "-run", run_name]
    if race:
        cmd.insert(2, "-race")
        env["CGO_ENABLED"] = "1"
    cmd += (extra_args or []) + [pkg]
    return run(cmd, cwd=HARNESS, env=env, timeout=timeout + 120)


def repo_head():
    p = run(["git", "-C", REPO, "rev-parse", "--short", "HEAD"])
    d = run(["git", "-C", REPO, "status", "--porcelain"])
    return p.stdout.strip() + ("+dirty" if d.stdout.strip() else "")


# ---------------------------------------------------------------------------------------------- TLC

class TlcResult:
    def __init__(self, rc, out, wall):
        self.rc, self.out, self.wall = rc, out, wall
        m = re.findall(r"(\d+) states generated, (\d+) distinct states found", out)
        self.generated, self.distinct = (int(m[-1][0]), int(m[-1][1])) if m else (0, 0)
        self.violated = re.findall(r"Invariant (\S+) is violated", out) + re.findall(r"Action property (\S+) is violated", out)
        if "Temporal properties were violated" in out:
            self.violated.append("<temporal>")
        self.deadlock = "Deadlock reached" in out
        self.ok = rc == 0 and "Model checking completed. No error has been found." in out or \
            (rc == 0 and "Finished computing initial states" in out and "Error:" not in out)
        self.postcondition_failed = "POSTCONDITION" in out.upper() and "violated" in out.lower() or rc == 10 and "postcondition" in out.lower()
        self.printed = [l for l in out.splitlines() if l.startswith('"') or l.startswith("<<") or l.startswith("[")]

    def coverage_zero(self):
        """Actions reported with count 0 by -coverage."""
        return re.findall(r"^<(\w+) line .*>: 0:0$", self.out, flags=re.M)

    def action_counts(self):
        return {m[0]: (int(m[1]), int(m[2])) for m in re.findall(r"^<(\w+) line [^>]*>: (\d+):(\d+)$", self.out, flags=re.M)}


def tlc(workdir, module, cfg, workers=None, timeout=600, extra=None, files=None, java_opts=None, deadlock=True, heap=None):
    """Runs TLC on spec/<module>.tla with config <cfg> inside workdir (spec files are copied there)."""
    os.makedirs(workdir, exist_ok=True)
    for f in os.listdir(SPEC):
        if f.endswith((".tla", ".cfg")):
            shutil.copy(os.path.join(SPEC, f), workdir)
    for name, content in (files or {}).items():
        with open(os.path.join(workdir, name), "w") as fh:
            fh.write(content)
    meta = tempfile.mkdtemp(prefix="meta.", dir=workdir)
    cmd = ["tlc", "-metadir", meta, "-workers", str(workers or NCPU), "-config", cfg]
    if not deadlock:
        cmd.append("-deadlock")
    cmd += (extra or []) + [module]
    env = dict(os.environ)
    jo = java_opts or ""
    if heap:
        jo += f" -Xmx{heap}"
    jo += " -Xss64m"
    jo += f" -Djava.io.tmpdir={meta}"        # TLC unpacks helper files into java.io.tmpdir (/tmp/tlc-*): keep them inside the scratch directory
    env["JAVA_TOOL_OPTIONS"] = (env.get("JAVA_TOOL_OPTIONS", "") + " " + jo).strip()
    t0 = time.time()
    try:
        p = subprocess.run(cmd, cwd=workdir, env=env, capture_output=True, text=True, timeout=timeout)
    except subprocess.TimeoutExpired as e:
        subprocess.run(["pkill", "-f", meta], capture_output=True)
        raise Infra(f"TLC timeout after {timeout}s on {module}/{cfg}") from e
    finally:
        shutil.rmtree(meta, ignore_errors=True)
    res = TlcResult(p.returncode, p.stdout + p.stderr, time.time() - t0)
    return res


def tlapm(workdir, module, timeout=900):
    """Checks a TLAPS proof module (spec/proofs/<module> and the specifications it EXTENDS are copied to workdir). Returns the number of proved
    obligations; an unproved obligation or a tool failure is an infrastructure problem of the specification, never a verdict
    about the code."""
    os.makedirs(workdir, exist_ok=True)
    for f in os.listdir(SPEC):
        if f.endswith(".tla"):
            shutil.copy(os.path.join(SPEC, f), workdir)
    shutil.copy(os.path.join(SPEC, "proofs", module), workdir)    # (proof modules EXTEND TLAPS, which only tlapm's library path has)
    t0 = time.time()
    p = run(["tlapm", "--threads", str(NCPU), "--cleanfp", module], cwd=workdir, timeout=timeout)
    text = p.stdout + p.stderr
    m = re.search(r"All (\d+) obligations? proved", text)
    if p.returncode != 0 or not m:
        raise Infra(f"tlapm did not prove {module}:\n" + text[-2500:])
    return int(m.group(1)), round(time.time() - t0, 1)


def tlc_must_pass(res, what):
    """An exhaustive model run that does not pass is an infrastructure/spec problem of *ours*
    (the model is not the code); it is never reported as a violation of the implementation."""
    if not res.ok:
        raise Infra(f"TLC did not pass on {what}: rc={res.rc} violated={res.violated} deadlock={res.deadlock}\n{res.out[-3000:]}")


# ---------------------------------------------------------------------------------------------- known findings

def known_findings(prop):
    path = os.path.join(VERIF, "known_findings.jsonl")
    out = []
    if os.path.exists(path):
        for line in open(path):
            line = line.strip()
            if not line or line.startswith("#") or line.startswith("fixed:"):
                continue
            try:
                e = json.loads(line)
            except ValueError:
                continue
            if e.get("property") == prop and e.get("status", "open") == "open":
                out.append(e)
    return out


# ---------------------------------------------------------------------------------------------- check runner

class Check:
    """Collects what one check run covered and turns it into evidence + exit status."""

    def __init__(self, prop, tier, seed, level="model_checking"):
        self.prop, self.tier, self.seed, self.level = prop, tier, seed, level
        self.t0 = time.time()
        self.cov = {"states": 0, "transitions": 0, "traces_validated_against_impl": 0, "samples": [],
                    "evaluations": 0, "distinct_nontrivial": 0, "rule": "", "tlc_runs": [], "bounds": {}}
        self.assumptions = []
        self.violations = []   # (signature, description, replay payload)
        self.known = []
        self.distinct = set()
        self.dup = {}

    def add_tlc(self, name, res, **kw):
        self.cov["states"] += res.distinct
        self.cov["transitions"] += res.generated
        d = {"name": name, "distinct_states": res.distinct, "states_generated": res.generated, "wall_s": round(res.wall, 1)}
        d.update(kw)
        self.cov["tlc_runs"].append(d)

    def sample(self, s, cap=6):
        if len(self.cov["samples"]) < cap:
            self.cov["samples"].append(s)

    def count(self, key=None, nontrivial=True):
        self.cov["evaluations"] += 1
        if nontrivial and key is not None:
            self.distinct.add(key)

    def violation(self, signature, desc, payload=None):
        """Records a violation seen on the real code. Known findings (matched by signature) are reported as such."""
        for kf in known_findings(self.prop):
            if kf.get("signature") == signature:
                if signature not in [k[0] for k in self.known]:
                    self.known.append((signature, kf.get("what", desc)))
                return
        for v in self.violations:
            if v[0] == signature:
                self.dup[signature] = self.dup.get(signature, 1) + 1
                return
        self.violations.append((signature, desc, payload))

    def finish(self):
        self.cov["distinct_nontrivial"] = max(self.cov["distinct_nontrivial"], len(self.distinct))
        if not self.cov["samples"] and self.violations:
            # a run that stopped at its first violations has examined at least those inputs
            self.cov["samples"].append({"violating_input": str(self.violations[0])[:600]})
        ev = {"property_id": self.prop, "tier": self.tier, "seed": self.seed, "level": self.level,
              "coverage": self.cov, "assumptions": self.assumptions, "wall_s": round(time.time() - self.t0, 1),
              "violations": len(self.violations), "repo_head": repo_head(),
              "known_findings_reported": [k[0] for k in self.known]}
        os.makedirs(EVIDENCE, exist_ok=True)
        tmp = os.path.join(EVIDENCE, f".{self.prop}.{os.getpid()}.tmp")
        with open(tmp, "w") as f:
            json.dump(ev, f, indent=1, default=str)
        os.replace(tmp, os.path.join(EVIDENCE, f"{self.prop}.json"))
        # the latest evidence of each tier is kept as well (evidence/<id>.json is whatever ran last)
        tdir = os.path.join(EVIDENCE, "by_tier", self.tier)
        os.makedirs(tdir, exist_ok=True)
        shutil.copy(os.path.join(EVIDENCE, f"{self.prop}.json"), os.path.join(tdir, f"{self.prop}.json"))
        for sig, what in self.known:
            print(f"KNOWN-FINDING: property={self.prop} {what} [{sig}]")
        if self.violations:
            rdir = os.path.join(REPLAYS, self.prop)
            os.makedirs(rdir, exist_ok=True)
            for i, (sig, desc, payload) in enumerate(self.violations[:5]):
                name = re.sub(r"[^A-Za-z0-9_.-]+", "_", sig)[:80] or "case"
                path = os.path.join(rdir, f"{name}.json")
                with open(path, "w") as f:
                    json.dump({"property": self.prop, "signature": sig, "description": desc, "seed": self.seed,
                               "tier": self.tier, "payload": payload}, f, indent=1, default=str)
                print(f"VIOLATION property={self.prop} replay={path}")
                log(f"  {sig} (x{self.dup.get(sig, 1)}): {desc}")
            return 1
        print(f"OK property={self.prop} tier={self.tier} seed={self.seed} states={self.cov['states']} "
              f"traces={self.cov['traces_validated_against_impl']} evaluations={self.cov['evaluations']} wall={ev['wall_s']}s")
        return 0
