#!/usr/bin/env python3
"""Generates /verif/MANIFEST.json from the table below (one source of truth for the interface)."""
import json, os, subprocess
V = os.path.dirname(os.path.dirname(os.path.abspath(__file__)))
props = [json.loads(l) for l in open(os.path.join(V, "properties.jsonl"))]

CLAIMED = {
 "C17": dict(
    engine="labels", technique="TLA+ function specification enumerated exhaustively by TLC (every string is a state, algebra theorems are invariants); reference table replayed into the real label package (enumerated-case conformance)",
    category="model_checking", design_ref="DESIGN.md section 7 C17, section 4.7",
    text="spec/Labels.tla states the documented label/pattern algebra; TLC checks its theorems (round trip, shorthand, relative resolution, component-boundary recursion, :all, name suffix, print/re-parse preserves the match set) on every string up to the length bound plus a structured family of longer documented forms, exports the reference result of every string, and the Go harness requires the real ParseTargetLabel/ParseTargetPattern/Matches/String to agree on every one of them (exact result for documented forms, rejection for the must-reject class, print/re-parse stability for everything the real parser accepts). Exhaustive within the bound, which is the right level for a pure function with rich case analysis.",
    note="Alphabet {/ : . a l p q 2}; strings up to length 5 (quick) / 6 (thorough) plus ~1 500 structured longer strings; 84-label universe for match sets; three or four current packages. Trusted: TLC, the transcription of docs/reference/labels.md into Labels.tla, Go's encoding/json."),
}

WALK_NOTE = ("Exhaustive: all DAGs up to 3 nodes (quick) / 4 nodes (thorough) in topological numbering, every dependency-closed selection, every failing subset, fail-fast on/off, 1..2 workers, external cancel on the 3-node family. "
             "Conformance: seeded gate schedules (7 policies incl. free-running) on random DAGs up to 6 (quick) / 12 (thorough) nodes inside a testing/synctest bubble; schedules beyond the TLC bound are sampled, not exhaustive. "
             "Trusted: TLC, testing/synctest's quiescence detection, the event hooks sitting inside the critical sections they report, the in-process task standing for the shell command.")
for pid, title, text in (
  ("C03", "DepsFirst / AtMostOnce / WorkerBound", "Walker.tla models graph_walker.go + task_worker_pool.go + the callback wiring of execute.go one action per critical section; TLC checks DepsFirst, WorkerBound and AtMostOnce over every interleaving for all small DAGs; the real walker and pool are then run under hundreds to thousands of controlled goroutine schedules and every recorded step must be a step of the specification (a dependant released early, a second take, a task on a busy or out-of-range worker slot is rejected at that event)."),
  ("C04", "deadlock freedom / Resolved / NoLostSignal / NoRace / stable returned map", "TLC's deadlock check plus Resolved, NoLostSignal, NoRace on every interleaving of all small DAGs (termination under weak fairness in the thorough tier); on the real code a hang is a deterministic verdict (all gates released, no timer left, Walk not returned inside the synctest bubble), panics, fatal concurrent-map errors and Go race detector reports in repository frames are violations, and the size of the completion map handed to the caller must equal the snapshot the specification prescribes."),
  ("C05", "KeepGoing / NeverBelowFailure / FailureRecorded / StopsStarts", "TLC checks that in keep-going mode everything not below a failure completes and nothing below a failure is ever called, that a failure is recorded as a failure, and that once the walker context is cancelled (fail-fast or interrupt) no task observes a live context; trace validation enforces the same on the real walker: a cancel without a failed ancestor, a failure swallowed as cancellation, a command started after the fail-fast cancel are rejected at that event."),
):
    CLAIMED[pid] = dict(engine="walker", technique="explicit TLA+ specification of the walker/pool checked exhaustively with TLC; trace validation of the real code under controlled goroutine schedules (synctest + gate hooks) against the same specification",
        category="model_checking", design_ref="DESIGN.md section 4.1, section 7 " + pid, text=text, note=WALK_NOTE)

HIST_NOTE = ("Exhaustive: every history of the enabled actions up to depth 4 (quick) / 5 (thorough) on small templates (chain, diamond with file/sub-directory/directory outputs, alias hop + glob, check targets). "
             "Conformance: TLC-enumerated systematic histories (full build; 1 (quick) or 2 (thorough) arbitrary actions; build) plus TLC -simulate histories of 9 actions, each stepped through the real binary; "
             "one package, generated sh commands. Trusted: TLC, the transcription of execute.go/registry.go/handlers into GrogBuild.tla (validated by the replays themselves), sha256sum, the harness's workspace renderer.")
HIST = {
  "C01": "GrogBuild.tla models sources, workspace, result cache, CAS and taint over histories; TLC checks CleanEq (a successful default-mode build leaves every declared output equal to the from-scratch build of the current sources) over every history up to the depth bound; TLC-generated histories (edits of inputs, commands, fingerprints, outputs, platform, alias retargeting, glob additions/removals, byte shifts between adjacent input files, taints, perturbations) are replayed into the real grog binary and after every build the executed set, per-target hit/execute decisions, output values (value-naming bijection with the model) and the literal from-scratch build in a fresh workspace with an empty cache are compared.",
  "C02": "TLC checks NoOpRebuild, EditLocality and AtMostOncePerBuild on the history model; every TLC-generated history is replayed and the set of executed commands of every build (shell trace) plus the per-target decision events must equal the specification's prediction -- including output paths deleted, modified, with deleted parent directories, stale directory entries, a file where a directory should be, dropped CAS blobs, both load_outputs modes, both hash algorithms, 1..4 workers.",
  "C13": "TLC checks TaintConsumed, TaintForces, NoCacheAlwaysRuns, DisabledCacheRunsAll on histories mixing edits, taints, no-cache toggles and cache-disabled builds; replayed histories compare executed sets, taint markers left in the cache directory and decisions; dependants re-execute only when the re-executed target's output changed (const vs copy commands).",
  "C14": "TLC checks SuccessImpliesPost and FailingCheckForcesExec on histories where an external condition checked by an output check is established by the command, cached, and destroyed (BreakExt), with commands that fail, time out, omit their output or do not establish the condition; replay compares exit status, executed sets and decisions with the specification.",
  "C15": "The specification models load_outputs=minimal as the code intends it (hits materialise nothing; before a target executes, the outputs of its direct dependencies, aliases resolved, are materialised or the dependency re-run) and TLC checks it over histories; replayed minimal-mode histories must execute exactly the predicted commands, each at most once, succeed/fail as predicted, and every command that runs reads its dependency outputs (a stale or missing dependency output changes the produced value or fails the command, which the value bijection / status comparison detects).",
}
for pid, text in HIST.items():
    CLAIMED[pid] = dict(engine="history", technique="explicit TLA+ specification of cache/workspace/pipeline over edit-build histories checked exhaustively with TLC; TLC-generated behaviours replayed step by step into the real binary with the abstract state compared after every action",
        category="model_checking", design_ref="DESIGN.md section 4.2, section 7 " + pid, text=text, note=HIST_NOTE)
CLAIMED["C05"]["text"] += " CLI level: TLC-generated histories with failing commands, timeouts, missing declared outputs and failing checks are replayed into the real binary: non-zero exit, failed targets named, descendants of a failure never started, independent targets built, and (through the executed sets of the follow-up builds) nothing cached for a failure."
CLAIMED["C05"]["note"] = WALK_NOTE + " " + HIST_NOTE

CLAIMED["C09"] = dict(engine="keys", technique="TLA+ specification of the abstract key state and its byte encoding, injectivity checked by TLC on a universe of boundary-shift neighbours; every enumerated state hashed by the real hashing API and the partitions compared (enumerated-case conformance)",
    category="model_checking", design_ref="DESIGN.md section 4.7, section 7 C09",
    text="KeyEncoding.tla defines the abstract build state (label, command, declared inputs with content or absence, outputs, fingerprint, platform or multiplatform, dependency digests) and Enc, the framed byte stream hash_target.go writes; TLC proves Enc injective on a universe that contains every adjacent-component boundary shift and list-separator case (and shows the unframed encoding of the pinned tree is not). Every state is materialised and hashed by the real GetTargetChangeHash under xxh3 and sha256: the number of distinct real keys must equal the number of abstract states, and re-declaring a state with shuffled inputs/outputs/dependency digests, a fresh fingerprint map and a different workspace root must give the same key.",
    note="Universe: 2 labels sharing a prefix, 2 commands, 3 input names incl. one containing ',', contents '' / 'x' (/ 'xx'), absent files, fingerprint keys/values containing '=', output sets {o,p} vs {o,p as one name}, 2-3 platforms incl. multiplatform-cache, 0-2 dependency digests: 33 696 states (quick), ~350 000 (thorough). Trusted: TLC, no hash collisions among the enumerated states.")

CLAIMED["C06"] = dict(engine="restore", technique="TLA+ function specification whose states are all (cached tree, prior destination state) pairs, enumerated by TLC and replayed into the real output handlers (enumerated-case conformance)",
    category="model_checking", design_ref="DESIGN.md section 4.5, section 7 C06",
    text="Restore.tla enumerates every directory tree (files with content and executable bit, symlinks, empty directories, one level of sub-directories, duplicate contents, names with a space and a leading dash) and file output, each with every applicable prior state of the destination (identical, absent, parent absent, modified, truncated, stale extra entries at the root and nested, an entry removed, mode bits flipped, symlink retargeted, a file where the directory should be, emptied, read-only sub-directory); RestoreExact states the postcondition. Every pair is written through the real FileOutputHandler / DirectoryOutputHandler into a real CAS, the destination put into the prior state, Load called, and the recursive listing compared with the cached one.",
    note="Trees of depth 2 with at most 2 root entries and 1 (quick) / 2 (thorough) entries per sub-directory; contents '' 'x' ('y'); xxh3 on all cases, sha256 on a sample. Trusted: TLC, the harness's materialise/listing functions, running as root (permission-based priors do not obstruct).")
CLAIMED["C04"]["text"] += " Directory restore: DirLoad.tla models the per-file download goroutines, the error channel and WaitGroup of DirectoryOutputHandler.Load; TLC checks deadlock freedom and FaultIsError for every subset of unreadable blobs; the real Load is then driven with every fault subset on flat, nested and mixed directories inside a synctest bubble and must return an error (or the exact tree when nothing is faulty)."

CLAIMED["C11"] = dict(engine="analysis", technique="TLA+ specification of graph validity enumerated exhaustively over four bounded families by TLC; every graph rendered to BUILD files and replayed into the real loader/analysis pipeline and (sample) the CLI (enumerated-case conformance)",
    category="model_checking", design_ref="DESIGN.md section 4.7, section 7 C11",
    text="Analysis.tla defines Valid from the property text (undefined dependency, cycles incl. self and through aliases, duplicate labels, overlapping outputs of targets not ordered by dependency after path normalisation, inputs escaping the package, outputs escaping the workspace, non-test target depending on test/testonly targets with aliases resolved) independently of internal/analysis; every graph of the families is one TLC state and is rendered to BUILD.json/BUILD.yaml files and pushed through the real loader, BuildNodeMapFromPackages, BuildGraph and CheckTargetConstraints; accept/reject must equal Valid. A sample goes through `grog check` and `grog build`: exit status must agree and nothing may run on a rejected graph.",
    note="Family A: 3 nodes, targets/aliases, deps over {n1,n2,n3,undefined}, plain/test/testonly (140 608 graphs; quick: every 7th); B: 3 targets in p, p, p/d, 5 dependency shapes, 10/13 output spellings (./, a/../b, trailing slash, nested package, ../, absolute, dir::, docker::); C: all subsets of 7 input spellings; D: 7 duplicate layouts. Trusted: TLC, the renderer in harness/cmd/h/analysis.go.")

CLAIMED["C12"] = dict(engine="selection", technique="TLA+ specification of selection (pattern and filter matches plus dependency closure through aliases, platform errors) enumerated by TLC over all (graph, invocation) pairs of a bounded universe; replayed into the real Selector and (sample) the CLI (enumerated-case conformance)",
    category="model_checking", design_ref="DESIGN.md section 4.7, section 7 C12",
    text="Selection.tla computes, for every valid 4-node graph with an optional alias, tags, test names and platform restrictions and for every invocation (11 pattern sets incl. absolute, relative, recursive, :all, shorthand; tag / exclude-tag; build vs test; host platform vs --all-platforms), the selected target set or the platform error, and TLC checks that the selection is dependency-closed and contains nothing else. Every pair is selected by the real selection.Selector on real model nodes and BuildGraph; a sample is run through grog build / grog test with an empty cache, where exactly the selected targets' commands must run and a platform-incompatible dependency must fail the invocation without running anything.",
    note="3 600 (quick) / ~14 000 (thorough) graphs x 132 invocations; pairs where a matched alias's target fails the filters are out of the property's domain and skipped (counted). Trusted: TLC, C17 for the meaning of pattern strings, the node builder in harness/cmd/h/selection.go.")

CLAIMED["C19"] = dict(engine="traversal", technique="TLA+ specification of visited-set traversal with a work counter, checked by TLC on all small DAGs and ladders (LinearWork); work counters compiled into the real traversal loops compared with the specified bound on ladders, dense DAGs and chains",
    category="model_checking", design_ref="DESIGN.md section 4.7, section 7 C19",
    text="Traversal.tla specifies reachability with a visited set and proves with TLC, over every order of edge examination on all DAGs up to 4/5 nodes and on ladders, that work never exceeds |E| and the result is exactly the reachable set. The real operations (GetDescendants, GetAncestors, SelectTargetsForBuild, output-conflict detection, failure propagation in the walker) run on ladders of depth 2..40 (400 in the thorough tier), width 2 and 3, on complete DAGs and on chains of the same size; the loop iteration counts reported by the hooks must stay within |V|+|E| (|V|*(|V|+|E|) for conflict detection). A path-enumerating implementation exceeds the bound at depth 3 already, so no exponential run is ever needed to see it.",
    note="Counts, not seconds, are judged (seconds are recorded). Trusted: the hook counters sit in the loops of the traversals; an algorithm that enumerates paths without passing those loops would not be seen.")
CLAIMED["C20"] = dict(engine="query", technique="TLA+ specification of deps/rdeps/owners/list over a bounded graph universe with the inverse theorems checked by TLC; expected answers compared with the stdout of the real query commands; rebuild prediction compared on real edit/build runs",
    category="model_checking", design_ref="DESIGN.md section 4.7, section 7 C20",
    text="Query.tla defines direct/transitive dependencies and dependants on the node graph, owners and list for every 4-node graph with an optional alias and test names (392 graphs), and TLC checks in every state that deps and rdeps are mutual inverses (direct and transitive). For each graph (quick: 40, diamonds preferred) the real grog deps / rdeps (with -t and --target-type) / owners / list commands are run and their stdout must be exactly the specified label set with every label once; on a subset the workspace is built, one input file edited and rebuilt: the re-executed targets must lie inside owners(f) plus transitive rdeps as printed by the real commands and as the specification computes.",
    note="An alias is a node of its own in the query graph; --target-type is applied to targets only. Trusted: TLC, C17 for pattern strings, the workspace renderer in vlib/checks/c20.py.")

CLAIMED["C16"] = dict(engine="loader", technique="TLA+ specification of the abstract package, the enrichment rules and the annotation line automaton enumerated by TLC; every abstract package rendered in four formats and every line sequence replayed into the real loaders (enumerated-case conformance), plus seeded corruption runs judged for panics/hangs",
    category="model_checking", design_ref="DESIGN.md section 4.7, section 7 C16, section 9",
    text="Loader.tla defines the abstract package (command, dependencies, literal and glob inputs with excludes, outputs, bin_output, tags, fingerprint, platforms with package defaults, timeout, alias), Expected(pkg) by the enrichment rules, and the Makefile annotation automaton over all sequences of seven line kinds. Every abstract package (9 216) is rendered as BUILD.json, BUILD.yaml, BUILD.star and Makefile annotations and loaded by the real loaders through LoadPackages; each must produce exactly Expected (so all formats agree); every line-kind sequence (19 608 / 137 257) goes through the real Makefile loader and must give the specified targets or error; ten structural JSON corruptions must be rejected; seeded byte-level mutations of renderings in all formats and loads under worker counts 1..16 must neither panic, hang nor change the result.",
    note="Not decided by the specification: arbitrary byte-level corruption (run as seeded samples, judged only for panics and hangs); pkl and script loaders are not exercised; globs that match the BUILD file itself are outside the cross-format claim (the file name necessarily differs). Trusted: TLC, the four renderers in harness/cmd/h/loader.go.")

CLAIMED["C10"] = dict(engine="locker", technique="explicit TLA+ specification of the lock protocol (one action per file-system call, processes, crashes) checked exhaustively with TLC; TLC-generated schedules and per-branch shortest schedules replayed into real OS processes stepped at every file-system call (behaviour replay with state comparison)",
    category="model_checking", design_ref="DESIGN.md section 4.6, section 7 C10",
    text="Locker.tla models open / flock / verify-inode / write / read / sleep / remove / close as separate steps of 2 and 3 processes with crashes between any two steps and every kind of pre-existing lock file; TLC checks Mutex, NoForeignUnlink, HolderOwnsPath on every interleaving and AllFinish (waiters proceed, stale files never block) under fairness. Real OS processes running the repository's Lock/Unlock are stepped one file-system call at a time by a controller (gates compiled in with the verif tag, SIGKILL for crashes) along TLC-simulated schedules and along the BFS-shortest schedule reaching each protocol branch (verify fails because the file was unlinked / replaced, flock blocked, acquisition after a holder crashed, crash between flock and write, second acquisition after unlock, ...); after every step the processes inside the critical section, the presence of the lock file and the gate every process waits at must equal the specification's state; goal prefixes are then continued in seeded free order under the two-holders oracle.",
    note="Linux flock(2) semantics; one Lock/Unlock per process; the PID written into the file is informational. Trusted: TLC, the gate hooks sitting immediately before each system call of workspace_locker.go (a call added without a gate would run atomically with its neighbour), the controller in vlib/checks/c10.py.")

PENDING = "check not built yet in this round (specification and binding planned in DESIGN.md section 7); not claimed until its quick tier is registered"

checks, na = [], []
for p in props:
    pid = p["id"]
    if pid in CLAIMED:
        c = CLAIMED[pid]
        checks.append({
            "property_id": pid,
            "quick_cmd": f"bin/check {pid} --tier quick",
            "thorough_cmd": f"bin/check {pid} --tier thorough",
            "evidence_file": f"/verif/evidence/{pid}.json",
            "replay_cmd_template": f"bin/check {pid} --replay {{path}}",
            "engine": c["engine"],
            "level_claimed": {"category": c["category"], "text": c["text"], "design_ref": c["design_ref"]},
            "level_note": c["note"],
            "technique": c["technique"],
        })
    else:
        na.append({"property_id": pid, "reason": PENDING})

hook_commits = subprocess.run(["git", "-C", "/repo", "log", "--format=%h %s", "--grep", "^verif hooks"], capture_output=True, text=True).stdout.strip().splitlines()
manifest = {
 "version": 1,
 "setup_cmd": "bin/setup",
 "hooks": {
   "guard": "verif",
   "enable": "go1.26 build -tags verif (GOFLAGS=-mod=mod GOPROXY=off GOSUMDB=off GOTOOLCHAIN=local); events go to $GROG_VERIF_TRACE (ndjson) or to an in-process sink; without the tag internal/verifhook is empty inlinable no-ops",
   "baseline_off_cmd": "bin/baseline_off",
   "source_commits": [l.split()[0] for l in hook_commits],
   "add_only": True,
 },
 "engines": [
   {"name": "walker", "path": "spec/Walker.tla + spec/WalkerTrace.tla + harness/walkdrv + vlib/walker_engine.py", "serves_properties": ["C03", "C04", "C05"], "kind_free_text": "exhaustive TLC over all small DAGs; trace validation of real executions under controlled schedules"},
   {"name": "history", "path": "spec/GrogBuild.tla + spec/GrogBuildGen.tla + vlib/build_engine.py + vlib/checks/_hist.py", "serves_properties": ["C01", "C02", "C05", "C13", "C14", "C15"], "kind_free_text": "exhaustive TLC over histories; TLC-generated behaviours replayed into the real binary"},
   {"name": "keys", "path": "spec/KeyEncoding.tla + harness/cmd/h/keys.go + vlib/checks/c09.py", "serves_properties": ["C09"], "kind_free_text": "TLC-enumerated universe of key states, real hashing compared by partition"},
   {"name": "restore", "path": "spec/Restore.tla + spec/DirLoad.tla + harness/restoredrv + vlib/checks/c06.py", "serves_properties": ["C06", "C04"], "kind_free_text": "TLC-enumerated restore cases replayed into the real handlers; read-fault subsets under synctest"},
   {"name": "analysis", "path": "spec/Analysis.tla + harness/cmd/h/analysis.go + vlib/checks/c11.py", "serves_properties": ["C11"], "kind_free_text": "TLC-enumerated graph families replayed into the real loader/analysis and the CLI"},
   {"name": "selection", "path": "spec/Selection.tla + harness/cmd/h/selection.go + vlib/checks/c12.py", "serves_properties": ["C12"], "kind_free_text": "TLC-enumerated (graph, invocation) pairs replayed into the real Selector and the CLI"},
   {"name": "traversal", "path": "spec/Traversal.tla + harness/cmd/h/traversal.go + vlib/checks/c19.py", "serves_properties": ["C19"], "kind_free_text": "visited-set traversal spec; real work counters against the specified bound"},
   {"name": "query", "path": "spec/Query.tla + vlib/checks/c20.py", "serves_properties": ["C20"], "kind_free_text": "TLC-exported query answers compared with the real commands' stdout"},
   {"name": "loader", "path": "spec/Loader.tla + harness/cmd/h/loader.go + vlib/checks/c16.py", "serves_properties": ["C16"], "kind_free_text": "TLC-enumerated abstract packages rendered in four formats and loaded by the real loaders"},
   {"name": "locker", "path": "spec/Locker.tla + spec/LockerGen.tla + harness/cmd/h/lockproc.go + vlib/checks/c10.py", "serves_properties": ["C10"], "kind_free_text": "exhaustive TLC over process interleavings and crashes; schedules replayed into real stepped processes"},
   {"name": "labels", "path": "spec/Labels.tla + harness/cmd/h/labels.go + vlib/checks/c17.py", "serves_properties": ["C17"], "kind_free_text": "TLC-enumerated function specification, reference table replayed into the real API"},
 ],
 "checks": checks,
 "not_applicable": na,
 "notes": "All checks: bin/check <id> --tier quick|thorough; exit 0 held, exit 1 + VIOLATION line, exit 2 infrastructure problem. Everything is rebuilt from /repo's working tree with -tags verif on every invocation. Known findings: known_findings.jsonl.",
}
json.dump(manifest, open(os.path.join(V, "MANIFEST.json"), "w"), indent=1)
print("claimed:", [c["property_id"] for c in checks], "unclaimed:", len(na))
