package main

import (
	"encoding/json"
	"fmt"
	"math/rand"
	"os"
	"path/filepath"
	"sort"
	"strings"

	"grog/internal/config"
	"grog/internal/hashing"
	"grog/internal/label"
	"grog/internal/model"
)

// keys: binding B3 for C09. Every abstract key state exported by spec/KeyEncoding.tla is materialised
// (model.Target + real input files) and hashed with the real hashing.GetTargetChangeHash under both hash
// algorithms. The partition of the universe by real key must be the identity partition (no two different
// states share a key), and re-declaring a state in another order, with another map iteration order or in
// another workspace location must not change its key.

type keyState struct {
	Label    string
	Cmd      string
	Files    strMap
	Names    []string
	Outs     []string
	Fp       [][]string
	Platform string
	Deps     []string
	Enc      string
	Asis     string
}

// strMap tolerates TLC's JSON rendering of an empty function (an empty array)
type strMap map[string]string

func (m *strMap) UnmarshalJSON(b []byte) error {
	*m = map[string]string{}
	if len(b) > 0 && b[0] == '[' {
		return nil
	}
	var mm map[string]string
	if err := json.Unmarshal(b, &mm); err != nil {
		return err
	}
	*m = mm
	return nil
}

func init() { register("keys", keysDriver) }

func keysDriver(args []string) error {
	if len(args) != 3 {
		return fmt.Errorf("usage: keys <states.json> <scratch dir> <out.json>")
	}
	var sts []keyState
	if err := readJSON(args[0], &sts); err != nil {
		return err
	}
	scratch := args[1]
	rng := rand.New(rand.NewSource(7))
	// one workspace per distinct file map (and a second, differently located copy for the location check)
	wsOf := map[string][2]string{}
	fileKey := func(s keyState) string {
		var ks []string
		for n, c := range s.Files {
			ks = append(ks, n+"\x00"+c)
		}
		sort.Strings(ks)
		return strings.Join(ks, "\x01")
	}
	mk := func(s keyState) ([2]string, error) {
		k := fileKey(s)
		if w, ok := wsOf[k]; ok {
			return w, nil
		}
		var w [2]string
		for i, base := range []string{"w", "elsewhere/deeper/w"} {
			root := filepath.Join(scratch, base, fmt.Sprintf("%d", len(wsOf)))
			if err := os.MkdirAll(filepath.Join(root, "p"), 0755); err != nil {
				return w, err
			}
			for n, c := range s.Files {
				if err := os.WriteFile(filepath.Join(root, "p", n), []byte(c), 0644); err != nil {
					return w, err
				}
			}
			w[i] = root
		}
		wsOf[k] = w
		return w, nil
	}
	target := func(s keyState, shuffle bool) model.Target {
		pkgName := strings.SplitN(strings.TrimPrefix(s.Label, "//"), ":", 2)
		inputs := append([]string{}, s.Names...)
		outs := append([]string{}, s.Outs...)
		if shuffle {
			rng.Shuffle(len(inputs), func(i, j int) { inputs[i], inputs[j] = inputs[j], inputs[i] })
			rng.Shuffle(len(outs), func(i, j int) { outs[i], outs[j] = outs[j], outs[i] })
		}
		var fp map[string]string
		if len(s.Fp) > 0 {
			fp = map[string]string{}
			for _, kv := range s.Fp {
				fp[kv[0]] = kv[1]
			}
		}
		t := model.Target{Label: label.TL(pkgName[0], pkgName[1]), Command: s.Cmd, Inputs: inputs, Fingerprint: fp}
		for _, o := range outs {
			t.Outputs = append(t.Outputs, model.NewOutput("file", o))
		}
		if s.Platform == "mp" {
			t.Tags = []string{model.TagMultiplatformCache}
		}
		return t
	}
	setPlatform := func(p string) {
		if p == "mp" {
			p = "linux/amd64"
		}
		parts := strings.SplitN(p, "/", 2)
		config.Global.OS, config.Global.Arch = parts[0], parts[1]
	}

	type report struct {
		Algo           string   `json:"algo"`
		States         int      `json:"states"`
		DistinctKeys   int      `json:"distinct_keys"`
		Collisions     []string `json:"collisions"`
		Unstable       []string `json:"unstable"`
		ModelDisagrees []string `json:"model_disagrees"`
		Evaluations    int      `json:"evaluations"`
	}
	var reports []report
	for _, algo := range []string{"xxh3", "sha256"} {
		config.Global.HashAlgorithm = algo
		rep := report{Algo: algo, States: len(sts), Collisions: []string{}, Unstable: []string{}, ModelDisagrees: []string{}}
		byKey := map[string]int{}
		encByKey := map[string]string{}
		for i, s := range sts {
			w, err := mk(s)
			if err != nil {
				return err
			}
			setPlatform(s.Platform)
			config.Global.WorkspaceRoot = w[0]
			deps := append([]string{}, s.Deps...)
			k, err := hashing.GetTargetChangeHash(target(s, false), deps)
			rep.Evaluations++
			if err != nil {
				return fmt.Errorf("state %d: %v", i, err)
			}
			if j, ok := byKey[k]; ok && len(rep.Collisions) < 20 {
				rep.Collisions = append(rep.Collisions, fmt.Sprintf("states %d and %d share key %s: %+v  vs  %+v", j, i, k, sts[j], s))
			} else if !ok {
				byKey[k] = i
				encByKey[k] = s.Enc
			}
			// order / map iteration / location invariance
			for rep2 := 0; rep2 < 3; rep2++ {
				config.Global.WorkspaceRoot = w[rep2%2]
				d2 := append([]string{}, deps...)
				rng.Shuffle(len(d2), func(a, b int) { d2[a], d2[b] = d2[b], d2[a] })
				k2, err := hashing.GetTargetChangeHash(target(s, true), d2)
				rep.Evaluations++
				if err != nil {
					return err
				}
				if k2 != k && len(rep.Unstable) < 20 {
					rep.Unstable = append(rep.Unstable, fmt.Sprintf("state %d: key changes under reordering/relocation: %s vs %s: %+v", i, k, k2, s))
				}
			}
		}
		rep.DistinctKeys = len(byKey)
		reports = append(reports, rep)
	}
	return writeJSON(args[2], reports)
}
