package main

import (
	"fmt"
	"os"
	"path/filepath"
	"sort"
	"strings"

	"google.golang.org/protobuf/proto"

	"grog/internal/config"
	"grog/internal/hashing"
	"grog/internal/proto/gen"
)

// audit <cache dir> <hash algorithm>: the off-line audit of a persistent cache used by C07/C08 (the Audit action of
// spec/CacheStore.tla): every blob visible under a digest must have exactly that content, every visible target result
// must decode and reference only visible blobs (through directory trees).
func init() { register("audit", auditDriver) }

type auditResult struct {
	Key      string   `json:"key"`
	Decodes  bool     `json:"decodes"`
	Refs     []string `json:"refs"`
	Missing  []string `json:"missing"`
	Outputs  int      `json:"outputs"`
	OutHash  string   `json:"outhash"`
	TreeErrs []string `json:"tree_errors"`
}

type auditReport struct {
	Cas        []string      `json:"cas"`
	BadBlobs   []string      `json:"bad_blobs"` // visible under a digest their content does not have
	TmpFiles   []string      `json:"tmp_files"`
	Results    []auditResult `json:"results"`
	Taint      []string      `json:"taint"`
	BlobsTotal int           `json:"blobs_total"`
}

func auditDriver(args []string) error {
	if len(args) != 3 {
		return fmt.Errorf("usage: audit <cache dir> <algo> <out.json>")
	}
	rep, err := auditCache(args[0], args[1])
	if err != nil {
		return err
	}
	return writeJSON(args[2], rep)
}

func auditCache(dir, algo string) (*auditReport, error) {
	config.Global.HashAlgorithm = algo
	rep := &auditReport{Cas: []string{}, BadBlobs: []string{}, TmpFiles: []string{}, Results: []auditResult{}, Taint: []string{}}
	cas := map[string]bool{}
	casDir := filepath.Join(dir, "cas")
	entries, _ := os.ReadDir(casDir)
	for _, e := range entries {
		if e.IsDir() {
			continue
		}
		if strings.HasPrefix(e.Name(), "tmp-") {
			rep.TmpFiles = append(rep.TmpFiles, "cas/"+e.Name())
			continue
		}
		rep.BlobsTotal++
		h, err := hashing.HashFile(filepath.Join(casDir, e.Name()))
		if err != nil || h != e.Name() {
			rep.BadBlobs = append(rep.BadBlobs, e.Name())
			continue
		}
		cas[e.Name()] = true
		rep.Cas = append(rep.Cas, e.Name())
	}
	_ = filepath.Walk(filepath.Join(dir, "target"), func(p string, info os.FileInfo, err error) error {
		if err != nil || info.IsDir() {
			return nil
		}
		rel, _ := filepath.Rel(filepath.Join(dir, "target"), p)
		if strings.HasPrefix(filepath.Base(p), "tmp-") {
			rep.TmpFiles = append(rep.TmpFiles, "target/"+rel)
			return nil
		}
		r := auditResult{Key: rel, Refs: []string{}, Missing: []string{}, TreeErrs: []string{}}
		data, err := os.ReadFile(p)
		tr := &gen.TargetResult{}
		if err == nil && proto.Unmarshal(data, tr) == nil && tr.ChangeHash != "" {
			r.Decodes = true
			r.Outputs = len(tr.Outputs)
			r.OutHash = tr.OutputHash
			for _, o := range tr.Outputs {
				switch k := o.Kind.(type) {
				case *gen.Output_File:
					r.Refs = append(r.Refs, k.File.GetDigest().GetHash())
				case *gen.Output_Directory:
					td := k.Directory.GetTreeDigest().GetHash()
					r.Refs = append(r.Refs, td)
					tb, err := os.ReadFile(filepath.Join(casDir, td))
					if err != nil {
						continue
					}
					tree := &gen.Tree{}
					if err := proto.Unmarshal(tb, tree); err != nil {
						r.TreeErrs = append(r.TreeErrs, td+": "+err.Error())
						continue
					}
					dirs := append([]*gen.Directory{tree.Root}, tree.Children...)
					for _, d := range dirs {
						for _, f := range d.GetFiles() {
							r.Refs = append(r.Refs, f.GetDigest().GetHash())
						}
					}
				}
			}
			for _, ref := range r.Refs {
				if !cas[ref] {
					r.Missing = append(r.Missing, ref)
				}
			}
		}
		sort.Strings(r.Refs)
		rep.Results = append(rep.Results, r)
		return nil
	})
	_ = filepath.Walk(filepath.Join(dir, "taint"), func(p string, info os.FileInfo, err error) error {
		if err == nil && !info.IsDir() {
			rel, _ := filepath.Rel(filepath.Join(dir, "taint"), p)
			rep.Taint = append(rep.Taint, rel)
		}
		return nil
	})
	return rep, nil
}
