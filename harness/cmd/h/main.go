// Command h is the Go side of the grog verification harness: each sub-command replays
// TLC-generated cases / behaviours into the real grog packages (built from /repo's working tree
// with -tags verif) and reports what the implementation did, as JSON.
package main

import (
	"encoding/json"
	"fmt"
	"os"
)

type driver func(args []string) error

var drivers = map[string]driver{}

func register(name string, d driver) { drivers[name] = d }

func main() {
	if len(os.Args) < 2 {
		fmt.Fprintln(os.Stderr, "usage: h <driver> args...")
		os.Exit(2)
	}
	d, ok := drivers[os.Args[1]]
	if !ok {
		fmt.Fprintf(os.Stderr, "unknown driver %q\n", os.Args[1])
		os.Exit(2)
	}
	if err := d(os.Args[2:]); err != nil {
		fmt.Fprintf(os.Stderr, "driver %s: %v\n", os.Args[1], err)
		os.Exit(2)
	}
}

func readJSON(path string, v any) error {
	b, err := os.ReadFile(path)
	if err != nil {
		return err
	}
	return json.Unmarshal(b, v)
}

func writeJSON(path string, v any) error {
	b, err := json.MarshalIndent(v, "", " ")
	if err != nil {
		return err
	}
	return os.WriteFile(path, b, 0644)
}
