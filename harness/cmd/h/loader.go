package main

import (
	"context"
	"encoding/json"
	"fmt"
	"math/rand"
	"os"
	"path/filepath"
	"sort"
	"strings"
	"time"

	"go.uber.org/zap"
	"go.uber.org/zap/zapcore"

	"grog/internal/config"
	"grog/internal/console"
	"grog/internal/loading"
	"grog/internal/model"
)

// loader: binding B3 for C16. Abstract packages enumerated by spec/Loader.tla are rendered as JSON, YAML, Starlark and
// Makefile annotations; each real loader must produce exactly the specification's Expected value. Annotation line
// sequences go through the real Makefile loader; structural and byte-level corruptions must yield an error or a
// package, never a panic or a hang; worker counts must not change the result.

type lTarget struct {
	Name      string   `json:"name"`
	Command   string   `json:"command"`
	Deps      []string `json:"deps"`
	Inputs    []string `json:"inputs"`
	Excludes  []string `json:"excludes"`
	Outputs   []string `json:"outputs"`
	Nocache   bool     `json:"nocache"`
	Fp        bool     `json:"fp"`
	Platforms string   `json:"platforms"`
	Timeout   string   `json:"timeout"`
	Bin       bool     `json:"bin"`
}
type lPkg struct {
	T                lTarget `json:"t"`
	DefaultPlatforms string  `json:"defaultPlatforms"`
	WithAlias        bool    `json:"withAlias"`
}
type lExpected struct {
	Label        string     `json:"label"`
	Command      string     `json:"command"`
	Dependencies []string   `json:"dependencies"`
	Inputs       []string   `json:"inputs"`
	Outputs      []string   `json:"outputs"`
	BinOutput    string     `json:"bin_output"`
	Tags         []string   `json:"tags"`
	Fingerprint  [][]string `json:"fingerprint"`
	Platforms    []string   `json:"platforms"`
	TimeoutMs    int64      `json:"timeout_ms"`
	Alias        []string   `json:"alias"`
}
type lCases struct {
	Packages []struct {
		Pkg      lPkg      `json:"pkg"`
		Expected lExpected `json:"expected"`
	} `json:"packages"`
	Lines []struct {
		Seq    []string `json:"seq"`
		Result struct {
			Err   bool     `json:"err"`
			Names []string `json:"names"`
		} `json:"result"`
	} `json:"lines"`
}

func init() { register("loader", loaderDriver) }

const junk = "{}[]:#\"'\n\t@,"

func jsonPkg(p lPkg) map[string]any {
	t := map[string]any{"name": p.T.Name, "command": p.T.Command}
	if len(p.T.Deps) > 0 {
		t["dependencies"] = p.T.Deps
	}
	if len(p.T.Inputs) > 0 {
		t["inputs"] = p.T.Inputs
	}
	if len(p.T.Excludes) > 0 {
		t["exclude_inputs"] = p.T.Excludes
	}
	if len(p.T.Outputs) > 0 {
		t["outputs"] = p.T.Outputs
	}
	if p.T.Bin {
		t["bin_output"] = "bin"
	}
	if p.T.Nocache {
		t["tags"] = []string{"no-cache"}
	}
	if p.T.Fp {
		t["fingerprint"] = map[string]string{"k": "v"}
	}
	if p.T.Platforms == "empty" {
		t["platforms"] = []string{}
	}
	if p.T.Platforms == "linux" {
		t["platforms"] = []string{"linux/amd64"}
	}
	if p.T.Timeout != "" {
		t["timeout"] = p.T.Timeout
	}
	pkg := map[string]any{"targets": []any{t}}
	if p.WithAlias {
		pkg["aliases"] = []any{map[string]any{"name": "al", "actual": ":t"}}
	}
	if p.DefaultPlatforms == "darwin" {
		pkg["default_platforms"] = []string{"darwin/arm64"}
	}
	return pkg
}

func yamlList(xs []string) string {
	var q []string
	for _, x := range xs {
		q = append(q, fmt.Sprintf("%q", x))
	}
	return "[" + strings.Join(q, ", ") + "]"
}

func renderYAML(p lPkg) string {
	var b strings.Builder
	if p.DefaultPlatforms == "darwin" {
		b.WriteString("default_platforms:\n  - darwin/arm64\n")
	}
	b.WriteString("targets:\n")
	fmt.Fprintf(&b, "  - name: %s\n    command: %q\n", p.T.Name, p.T.Command)
	if len(p.T.Deps) > 0 {
		b.WriteString("    dependencies:\n")
		for _, d := range p.T.Deps {
			fmt.Fprintf(&b, "      - %q\n", d)
		}
	}
	if len(p.T.Inputs) > 0 {
		fmt.Fprintf(&b, "    inputs: %s\n", yamlList(p.T.Inputs))
	}
	if len(p.T.Excludes) > 0 {
		fmt.Fprintf(&b, "    exclude_inputs: %s\n", yamlList(p.T.Excludes))
	}
	if len(p.T.Outputs) > 0 {
		fmt.Fprintf(&b, "    outputs: %s\n", yamlList(p.T.Outputs))
	}
	if p.T.Bin {
		b.WriteString("    bin_output: bin\n")
	}
	if p.T.Nocache {
		b.WriteString("    tags:\n      - no-cache\n")
	}
	if p.T.Fp {
		b.WriteString("    fingerprint:\n      k: v\n")
	}
	if p.T.Platforms == "empty" {
		b.WriteString("    platforms: []\n")
	}
	if p.T.Platforms == "linux" {
		b.WriteString("    platforms: [linux/amd64]\n")
	}
	if p.T.Timeout != "" {
		fmt.Fprintf(&b, "    timeout: %s\n", p.T.Timeout)
	}
	if p.WithAlias {
		b.WriteString("aliases:\n  - name: al\n    actual: \":t\"\n")
	}
	return b.String()
}

func renderStar(p lPkg) string {
	var args []string
	args = append(args, fmt.Sprintf("name = %q", p.T.Name), fmt.Sprintf("command = %q", p.T.Command))
	if len(p.T.Deps) > 0 {
		args = append(args, "dependencies = "+yamlList(p.T.Deps))
	}
	if len(p.T.Inputs) > 0 {
		args = append(args, "inputs = "+yamlList(p.T.Inputs))
	}
	if len(p.T.Excludes) > 0 {
		args = append(args, "exclude_inputs = "+yamlList(p.T.Excludes))
	}
	if len(p.T.Outputs) > 0 {
		args = append(args, "outputs = "+yamlList(p.T.Outputs))
	}
	if p.T.Bin {
		args = append(args, `bin_output = "bin"`)
	}
	if p.T.Nocache {
		args = append(args, `tags = ["no-cache"]`)
	}
	if p.T.Fp {
		args = append(args, `fingerprint = {"k": "v"}`)
	}
	if p.T.Platforms == "empty" {
		args = append(args, `platforms = []`)
	}
	if p.T.Platforms == "linux" {
		args = append(args, `platforms = ["linux/amd64"]`)
	}
	if p.T.Timeout != "" {
		args = append(args, fmt.Sprintf("timeout = %q", p.T.Timeout))
	}
	s := "target(\n    " + strings.Join(args, ",\n    ") + ",\n)\n"
	if p.WithAlias {
		s += "alias(name = \"al\", actual = \":t\")\n"
	}
	return s
}

// renderMakeBlock writes the annotation in YAML block style (indented lists and maps under their keys)
func renderMakeBlock(p lPkg) string {
	var b strings.Builder
	b.WriteString("# @grog\n")
	blockList := func(key string, xs []string) {
		if len(xs) == 0 {
			return
		}
		fmt.Fprintf(&b, "# %s:\n", key)
		for _, x := range xs {
			fmt.Fprintf(&b, "#   - %q\n", x)
		}
	}
	blockList("dependencies", p.T.Deps)
	blockList("inputs", p.T.Inputs)
	blockList("outputs", p.T.Outputs)
	if p.T.Nocache {
		blockList("tags", []string{"no-cache"})
	}
	if p.T.Fp {
		b.WriteString("# fingerprint:\n#   k: v\n")
	}
	if p.T.Platforms == "empty" {
		b.WriteString("# platforms: []\n")
	}
	if p.T.Platforms == "linux" {
		blockList("platforms", []string{"linux/amd64"})
	}
	if p.T.Timeout != "" {
		fmt.Fprintf(&b, "# timeout: %s\n", p.T.Timeout)
	}
	if !strings.Contains(b.String(), "\n# ") {
		b.WriteString("# tags: []\n")
	}
	fmt.Fprintf(&b, "%s:\n\techo building\n", p.T.Name)
	return b.String()
}

func renderMake(p lPkg) string {
	var b strings.Builder
	b.WriteString("# @grog\n")
	if len(p.T.Deps) > 0 {
		fmt.Fprintf(&b, "# dependencies: %s\n", yamlList(p.T.Deps))
	}
	if len(p.T.Inputs) > 0 {
		fmt.Fprintf(&b, "# inputs: %s\n", yamlList(p.T.Inputs))
	}
	if len(p.T.Outputs) > 0 {
		fmt.Fprintf(&b, "# outputs: %s\n", yamlList(p.T.Outputs))
	}
	if p.T.Nocache {
		b.WriteString("# tags: [no-cache]\n")
	}
	if p.T.Fp {
		b.WriteString("# fingerprint: {k: v}\n")
	}
	if p.T.Platforms == "empty" {
		b.WriteString("# platforms: []\n")
	}
	if p.T.Platforms == "linux" {
		b.WriteString("# platforms: [linux/amd64]\n")
	}
	if p.T.Timeout != "" {
		fmt.Fprintf(&b, "# timeout: %s\n", p.T.Timeout)
	}
	if !strings.Contains(b.String(), "\n# ") {
		b.WriteString("# tags: []\n")
	}
	fmt.Fprintf(&b, "%s:\n\techo building\n", p.T.Name)
	return b.String()
}

func canon(pkgs []*model.Package) (map[string]lExpected, error) {
	out := map[string]lExpected{}
	for _, p := range pkgs {
		for _, t := range p.Targets {
			e := lExpected{Label: t.Label.String(), Command: t.Command, TimeoutMs: t.Timeout.Milliseconds()}
			for _, d := range t.Dependencies {
				e.Dependencies = append(e.Dependencies, d.String())
			}
			e.Inputs = append(e.Inputs, t.Inputs...)
			for _, o := range t.Outputs {
				e.Outputs = append(e.Outputs, o.String())
			}
			if t.HasBinOutput() {
				e.BinOutput = t.BinOutput.String()
			}
			e.Tags = append(e.Tags, t.Tags...)
			for k, v := range t.Fingerprint {
				e.Fingerprint = append(e.Fingerprint, []string{k, v})
			}
			e.Platforms = append(e.Platforms, t.Platforms...)
			out[e.Label] = normalise(e)
		}
		for _, a := range p.Aliases {
			e := out["alias"]
			e.Alias = []string{a.Label.String(), a.Actual.String()}
			out["alias:"+a.Label.String()] = e
		}
	}
	return out, nil
}

func normalise(e lExpected) lExpected {
	for _, l := range []*[]string{&e.Dependencies, &e.Inputs, &e.Outputs, &e.Tags, &e.Platforms} {
		if *l == nil {
			*l = []string{}
		}
		sort.Strings(*l)
	}
	if e.Fingerprint == nil {
		e.Fingerprint = [][]string{}
	}
	sort.Slice(e.Fingerprint, func(i, j int) bool { return e.Fingerprint[i][0] < e.Fingerprint[j][0] })
	if e.Alias == nil {
		e.Alias = []string{}
	}
	return e
}

type loadOutcome struct {
	pkgs  []*model.Package
	err   error
	panic any
	hung  bool
}

// currentCase is written before every load: a panic inside one of the loader's own goroutines cannot be recovered
// here and kills the process; the orchestrator then reads which input did it.
var currentCaseFile string

func noteCase(root string) {
	if currentCaseFile == "" {
		return
	}
	var b strings.Builder
	_ = filepath.Walk(root, func(p string, info os.FileInfo, err error) error {
		if err == nil && !info.IsDir() && (strings.HasPrefix(info.Name(), "BUILD") || info.Name() == "Makefile") {
			c, _ := os.ReadFile(p)
			fmt.Fprintf(&b, "--- %s\n%s\n", strings.TrimPrefix(p, root), c)
		}
		return nil
	})
	_ = os.WriteFile(currentCaseFile, []byte(b.String()), 0644)
}

func safeLoad(ctx context.Context, root string) loadOutcome {
	noteCase(root)
	ch := make(chan loadOutcome, 1)
	go func() {
		var o loadOutcome
		defer func() {
			if r := recover(); r != nil {
				o.panic = r
			}
			ch <- o
		}()
		config.Global.WorkspaceRoot = root
		o.pkgs, o.err = loading.LoadPackages(ctx, root)
	}()
	select {
	case o := <-ch:
		return o
	case <-time.After(20 * time.Second):
		return loadOutcome{hung: true}
	}
}

func loaderDriver(args []string) error {
	if len(args) != 4 && len(args) != 6 {
		return fmt.Errorf("usage: loader <cases.json> <scratch> <out.json> <seed> [<shard> <shards>]")
	}
	shard, shards := 0, 1
	if len(args) == 6 {
		fmt.Sscan(args[4], &shard)
		fmt.Sscan(args[5], &shards)
	}
	var cs lCases
	if err := readJSON(args[0], &cs); err != nil {
		return err
	}
	var seed int64
	fmt.Sscan(args[3], &seed)
	rng := rand.New(rand.NewSource(seed))
	devnull, _ := os.OpenFile(os.DevNull, os.O_WRONLY, 0)
	os.Stdout = devnull
	logger := console.NewFromSugared(zap.NewNop().Sugar(), zapcore.FatalLevel)
	ctx := console.WithLogger(context.Background(), logger)
	config.Global.NumWorkers = 2
	config.Global.Root = filepath.Join(args[1], "groot")
	config.Global.OS, config.Global.Arch = "linux", "amd64"
	_ = os.MkdirAll(args[1], 0755)
	currentCaseFile = filepath.Join(args[1], "current_case.txt")
	type dis struct {
		Kind   string `json:"kind"`
		Format string `json:"format"`
		Case   any    `json:"case"`
		Want   any    `json:"want"`
		Got    any    `json:"got"`
	}
	var out []dis
	counts := map[string]int{}
	add := func(kind, format string, c, want, got any) {
		counts["disagree:"+kind]++
		if len(out) < 400 {
			out = append(out, dis{kind, format, c, want, got})
		}
	}
	n := 0
	mkRoot := func() (string, string, error) {
		n++
		root := filepath.Join(args[1], "w", fmt.Sprint(n%32))
		_ = os.RemoveAll(root)
		pdir := filepath.Join(root, "p")
		if err := os.MkdirAll(pdir, 0755); err != nil {
			return "", "", err
		}
		_ = os.WriteFile(filepath.Join(root, "grog.toml"), nil, 0644)
		for _, f := range []string{"a.txt", "b.txt", "c.md"} {
			_ = os.WriteFile(filepath.Join(pdir, f), []byte(f), 0644)
		}
		return root, pdir, nil
	}
	renderers := []struct {
		name, file string
		render     func(lPkg) string
		can        func(lPkg) bool
	}{
		{"json", "BUILD.json", func(p lPkg) string { b, _ := json.MarshalIndent(jsonPkg(p), "", " "); return string(b) }, func(lPkg) bool { return true }},
		{"yaml", "BUILD.yaml", renderYAML, func(lPkg) bool { return true }},
		{"starlark", "BUILD.star", renderStar, func(p lPkg) bool { return p.DefaultPlatforms == "unset" }},
		{"makefile", "Makefile", renderMake, func(p lPkg) bool {
			return p.DefaultPlatforms == "unset" && !p.WithAlias && !p.T.Bin && len(p.T.Excludes) == 0
		}},
		{"makefile-block", "Makefile", renderMakeBlock, func(p lPkg) bool {
			return p.DefaultPlatforms == "unset" && !p.WithAlias && !p.T.Bin && len(p.T.Excludes) == 0
		}},
	}
	var samplesForCorruption []string
	for ci, c := range cs.Packages {
		if ci%shards != shard {
			continue
		}
		want := normalise(c.Expected)
		for _, r := range renderers {
			if !r.can(c.Pkg) {
				continue
			}
			root, pdir, err := mkRoot()
			if err != nil {
				return err
			}
			text := r.render(c.Pkg)
			if err := os.WriteFile(filepath.Join(pdir, r.file), []byte(text), 0644); err != nil {
				return err
			}
			if r.name == "json" && ci%97 == 0 {
				samplesForCorruption = append(samplesForCorruption, text)
			}
			counts["format:"+r.name]++
			o := safeLoad(ctx, root)
			switch {
			case o.hung:
				add("hang", r.name, c.Pkg, "load returns", "no return within 20s")
			case o.panic != nil:
				add("panic", r.name, c.Pkg, "no panic", fmt.Sprint(o.panic))
			case o.err != nil:
				add("load-error", r.name, c.Pkg, want, o.err.Error())
			default:
				got, _ := canon(o.pkgs)
				g, ok := got[want.Label]
				w := want
				if strings.HasPrefix(r.name, "makefile") {
					w.Command = "make " + c.Pkg.T.Name
				}
				wa := w.Alias
				w.Alias, g.Alias = []string{}, []string{}
				if !ok {
					add("target-missing", r.name, c.Pkg, w, got)
				} else if fmt.Sprintf("%+v", g) != fmt.Sprintf("%+v", w) {
					add("target-differs", r.name, c.Pkg, w, g)
				}
				if len(wa) == 2 {
					if a, ok := got["alias:"+wa[0]]; !ok || len(a.Alias) != 2 || a.Alias[1] != wa[1] {
						add("alias-differs", r.name, c.Pkg, wa, a.Alias)
					}
				}
			}
		}
	}
	// annotation line sequences through the real Makefile loader
	lineText := map[string]string{"marker": "# @grog", "comment-name": "# name: x", "comment-tags": "# tags: [a]", "comment-badyaml": "# tags: [a",
		"blank": "", "rule": "r:", "other": "echo hi"}
	for li, lc := range cs.Lines {
		if li%shards != shard {
			continue
		}
		root, pdir, err := mkRoot()
		if err != nil {
			return err
		}
		var lines []string
		for _, k := range lc.Seq {
			lines = append(lines, lineText[k])
		}
		if err := os.WriteFile(filepath.Join(pdir, "Makefile"), []byte(strings.Join(lines, "\n")+"\n"), 0644); err != nil {
			return err
		}
		counts["lines"]++
		o := safeLoad(ctx, root)
		switch {
		case o.hung:
			add("hang", "makefile-lines", lc.Seq, "load returns", "no return within 20s")
		case o.panic != nil:
			add("panic", "makefile-lines", lc.Seq, "no panic", fmt.Sprint(o.panic))
		case lc.Result.Err != (o.err != nil):
			add("annotation-error-mismatch", "makefile-lines", lc.Seq, lc.Result, fmt.Sprint(o.err))
		case o.err == nil:
			var names []string
			for _, p := range o.pkgs {
				for _, t := range p.Targets {
					names = append(names, t.Label.Name)
				}
			}
			sort.Strings(names)
			w := append([]string{}, lc.Result.Names...)
			sort.Strings(w)
			if strings.Join(names, ",") != strings.Join(w, ",") {
				add("annotation-targets-differ", "makefile-lines", lc.Seq, w, names)
			}
		}
	}
	// type confusion: every node of a rich document replaced by every value of a menu of wrongly typed values, in every
	// format; and every single-byte edit of one compact rendering per format. Any outcome but a panic or a hang is fine.
	thorough := len(cs.Lines) > 30000
	sysN := 0
	tryText := func(stage, file, text string) {
		sysN++
		if sysN%shards != shard {
			return
		}
		root, pdir, err := mkRoot()
		if err != nil {
			return
		}
		_ = os.WriteFile(filepath.Join(pdir, file), []byte(text), 0644)
		counts[stage+":"+file]++
		o := safeLoad(ctx, root)
		if o.hung {
			add("hang", stage+":"+file, text, "returns", "hang")
		} else if o.panic != nil {
			add("panic", stage+":"+file, text, "no panic", fmt.Sprint(o.panic))
		}
	}
	for _, text := range typeConfusions() {
		tryText("type-confusion", "BUILD.json", text)
		tryText("type-confusion", "BUILD.yaml", text)
	}
	for _, text := range typeConfusionsYAMLOnly() {
		tryText("type-confusion", "BUILD.yaml", text)
	}
	for _, text := range typeConfusionsMake() {
		tryText("type-confusion", "Makefile", text)
	}
	for _, text := range typeConfusionsStar() {
		tryText("type-confusion", "BUILD.star", text)
	}
	for _, text := range typeConfusionsScript() {
		tryText("type-confusion", "t.grog.sh", text)
	}
	for file, text := range singleEditSeeds {
		for _, e := range singleEdits(text, thorough) {
			tryText("single-edit", file, e)
		}
	}
	if shard != 0 {
		if out == nil {
			out = []dis{}
		}
		return writeJSON(args[2], map[string]any{"counts": counts, "disagreements": out})
	}
	// structural corruptions: an error, never a panic or a hang
	corrupt := []struct{ name, old, new string }{
		{"inputs-as-string", `"command": "run it"`, `"command": "run it", "inputs": "a.txt"`},
		{"timeout-number", `"command": "run it"`, `"command": "run it", "timeout": 5`},
		{"bad-timeout", `"command": "run it"`, `"command": "run it", "timeout": "5 parsecs"`},
		{"unknown-output-type", `"command": "run it"`, `"command": "run it", "outputs": ["foo::x"]`},
		{"malformed-output", `"command": "run it"`, `"command": "run it", "outputs": ["a::b::c"]`},
		{"empty-dependency-name", `"command": "run it"`, `"command": "run it", "dependencies": [":"]`},
		{"dependency-without-prefix", `"command": "run it"`, `"command": "run it", "dependencies": ["u"]`},
		{"bin-output-not-a-file", `"command": "run it"`, `"command": "run it", "bin_output": "dir::x"`},
		{"targets-not-a-list", `"targets": [`, `"targets": {"a": [`},
		{"truncated", "", ""},
	}
	base := `{"targets": [{"name": "t", "command": "run it"}]}`
	for _, c := range corrupt {
		text := strings.Replace(base, c.old, c.new, 1)
		if c.name == "truncated" {
			text = base[:len(base)/2]
		}
		root, pdir, err := mkRoot()
		if err != nil {
			return err
		}
		_ = os.WriteFile(filepath.Join(pdir, "BUILD.json"), []byte(text), 0644)
		counts["structural-corruption"]++
		o := safeLoad(ctx, root)
		switch {
		case o.hung:
			add("hang", "json-corrupt", c.name, "error", "hang")
		case o.panic != nil:
			add("panic", "json-corrupt", c.name, "error", fmt.Sprint(o.panic))
		case o.err == nil:
			add("corruption-accepted", "json-corrupt", c.name, "error", "loaded")
		}
	}
	// byte-level corruptions of real renderings: anything but a panic or a hang
	texts := map[string][]string{"BUILD.json": samplesForCorruption}
	for _, c := range cs.Packages[:min(len(cs.Packages), 40)] {
		texts["BUILD.yaml"] = append(texts["BUILD.yaml"], renderYAML(c.Pkg))
		texts["BUILD.star"] = append(texts["BUILD.star"], renderStar(c.Pkg))
		texts["Makefile"] = append(texts["Makefile"], renderMake(c.Pkg))
	}
	fuzzN := 150
	if len(cs.Lines) > 30000 {
		fuzzN = 1500
	}
	for file, ts := range texts {
		for i := 0; i < fuzzN && len(ts) > 0; i++ {
			b := []byte(ts[rng.Intn(len(ts))])
			for k := 0; k < 1+rng.Intn(3) && len(b) > 0; k++ {
				pos := rng.Intn(len(b))
				switch rng.Intn(4) {
				case 0:
					b[pos] = byte(rng.Intn(256))
				case 1:
					b = append(b[:pos], b[pos+1:]...)
				case 2:
					b = append(b[:pos], append([]byte{junk[rng.Intn(len(junk))]}, b[pos:]...)...)
				case 3:
					b = b[:pos]
				}
			}
			root, pdir, err := mkRoot()
			if err != nil {
				return err
			}
			_ = os.WriteFile(filepath.Join(pdir, file), b, 0644)
			counts["byte-corruption:"+file]++
			o := safeLoad(ctx, root)
			if o.hung {
				add("hang", "byte-corrupt:"+file, string(b), "returns", "hang")
			} else if o.panic != nil {
				add("panic", "byte-corrupt:"+file, string(b), "no panic", fmt.Sprint(o.panic))
			}
		}
	}
	// determinism across worker counts
	root := filepath.Join(args[1], "multi")
	for i, d := range []string{"p", "q", "r/s", "r/t", "u"} {
		dir := filepath.Join(root, d)
		_ = os.MkdirAll(dir, 0755)
		p := cs.Packages[(i*131)%len(cs.Packages)].Pkg
		b, _ := json.Marshal(jsonPkg(p))
		_ = os.WriteFile(filepath.Join(dir, "BUILD.json"), b, 0644)
		_ = os.WriteFile(filepath.Join(dir, "a.txt"), []byte("a"), 0644)
		_ = os.WriteFile(filepath.Join(dir, "b.txt"), []byte("b"), 0644)
	}
	_ = os.WriteFile(filepath.Join(root, "grog.toml"), nil, 0644)
	var first string
	for _, w := range []int{1, 4, 16, 2, 8, 1, 16} {
		config.Global.NumWorkers = w
		o := safeLoad(ctx, root)
		counts["worker-count-run"]++
		if o.err != nil || o.panic != nil || o.hung {
			add("worker-count-load-failed", "json", w, "loads", fmt.Sprint(o.err, o.panic, o.hung))
			continue
		}
		got, _ := canon(o.pkgs)
		b, _ := json.Marshal(got)
		if first == "" {
			first = string(b)
		} else if string(b) != first {
			add("worker-count-changes-result", "json", w, first, string(b))
		}
	}
	if out == nil {
		out = []dis{}
	}
	return writeJSON(args[2], map[string]any{"counts": counts, "disagreements": out})
}

const richDoc = `{"targets":[{"name":"t","command":"run it","dependencies":[":u"],"inputs":["a.txt"],"exclude_inputs":["b.txt"],` +
	`"outputs":["o.txt","dir::d"],"bin_output":"bin.sh","output_checks":[{"command":"true","expected_output":"x"}],"tags":["x"],` +
	`"fingerprint":{"k":"v"},"platforms":["linux/amd64"],"environment_variables":{"A":"b"},"timeout":"5s"},{"name":"u","command":"x"}],` +
	`"aliases":[{"name":"al","actual":":t"}],"environments":[{"name":"e","type":"docker","dependencies":[":t"],"docker_image":"img"}],` +
	`"default_platforms":["linux/amd64"]}`

var confusionMenu = []string{`null`, `0`, `-1.5`, `true`, `""`, `"s"`, `[]`, `[null]`, `[[]]`, `{}`, `{"x":null}`, `[1]`, `["a",null]`,
	`[{}]`, `{"name":null}`, `[{"name":null,"command":null}]`, `"//:"`, `":"`, `"::"`, `["::"]`, `[""]`, `{"":""}`, `1e999`, `"\u0000"`}

// typeConfusions returns richDoc with each node in turn replaced by each menu value (and each object key removed).
func typeConfusions() []string {
	var doc any
	_ = json.Unmarshal([]byte(richDoc), &doc)
	var out []string
	var walk func(node any, set func(any))
	emit := func() {
		b, _ := json.Marshal(doc)
		out = append(out, string(b))
	}
	walk = func(node any, set func(any)) {
		for _, m := range confusionMenu {
			set(json.RawMessage(m))
			emit()
		}
		set(node)
		switch v := node.(type) {
		case map[string]any:
			keys := make([]string, 0, len(v))
			for k := range v {
				keys = append(keys, k)
			}
			sort.Strings(keys)
			for _, k := range keys {
				child := v[k]
				delete(v, k)
				emit()
				v[k] = child
				walk(child, func(x any) { v[k] = x })
			}
		case []any:
			for i := range v {
				walk(v[i], func(x any) { v[i] = x })
			}
		}
	}
	walk(doc, func(x any) { doc = x })
	return out
}

// YAML-only shapes: empty list entries, anchors and merge keys, tags, multi-documents, tabs.
func typeConfusionsYAMLOnly() []string {
	return []string{
		"targets:\n  -\n", "targets:\n  - \n  - name: t\n    command: x\n", "aliases:\n  -\n", "environments:\n  -\n",
		"targets:\n  - ~\n", "targets: ~\n", "targets:\n", "aliases:\n", "~\n", "---\n", "---\n---\n", "--- !!binary x\n",
		"targets:\n  - &a\n    name: t\n    command: x\n  - *a\n", "targets:\n  - <<: *nope\n",
		"a: &a [*a]\n", "targets: &t\n  - name: t\n    command: x\n    dependencies: *t\n",
		"targets:\n  - name: !!int t\n    command: x\n", "targets:\n  - name: t\n    command: x\n    timeout: !!float 5s\n",
		"targets:\n\t- name: t\n", "targets: [\n", "targets: {\n", "? [a, b]\n: c\n", "targets:\n  - name: t\n    name: u\n    command: x\n",
		"targets:\n  - name: t\n    command: x\n    fingerprint:\n      ~: v\n", "targets:\n  - name: t\n    command: x\n    fingerprint:\n      k: ~\n",
		"targets:\n  - name: t\n    command: x\n    output_checks:\n      -\n", "targets:\n  - name: t\n    command: x\n    inputs:\n      -\n",
		"targets:\n  - name: t\n    command: x\n    dependencies:\n      -\n", "targets:\n  - name: t\n    command: x\n    outputs:\n      -\n",
		"targets:\n  - name: t\n    command: x\n    platforms:\n      -\n", "default_platforms:\n  -\ntargets:\n  - name: t\n    command: x\n",
	}
}

func typeConfusionsMake() []string {
	fields := []string{"name", "command", "dependencies", "inputs", "exclude_inputs", "outputs", "bin_output", "output_checks", "tags",
		"fingerprint", "platforms", "environment_variables", "timeout", "unknown_field"}
	var out []string
	for _, f := range fields {
		for _, m := range confusionMenu {
			out = append(out, fmt.Sprintf("# @grog\n# %s: %s\nt:\n\techo\n", f, m))
			out = append(out, fmt.Sprintf("# @grog\n# name: n\n# %s: %s\nt:\n\techo\n", f, m))
		}
		out = append(out, fmt.Sprintf("# @grog\n# %s:\nt:\n\techo\n", f), fmt.Sprintf("# @grog\n# %s:\n#   -\nt:\n\techo\n", f),
			fmt.Sprintf("# @grog\n# %s:\n#   ~: ~\nt:\n\techo\n", f))
	}
	out = append(out, "# @grog\n", "# @grog", "# @grog\n#\n", "# @grog\n# \n", "# @grog\n\n", "# @grog\n# @grog\n", "# @grog\nt:\n", "# @grog\n# -\nt:\n",
		"# @grog\n# ~\nt:\n", "# @grog\n# []\nt:\n", "# @grog\n# x\nt:\n", "# @grog\n# name: a\n: \n", "# @grog\n# name: a\n:\n", "# @grog\n# name: a\n\t:\n",
		"# @grog\n# name: a\nt", "# @grog\n# name: a\n#", "# @grog\n# name: a\n# @grog\nt:\n", "#@grog\nt:\n", "# @grog \n# name: a\nt:\n", "# @grog\n#name: a\nt:\n",
		"\n# @grog\n# name: a\nt u:\n", "# @grog\n# name: a\nt: u\n", "# @grog\n# name: a\nt::\n", "# @grog\n# name: a\nt := 1\n", "# @grog\n# name: a\n.PHONY: t\n",
		"# @grog\r\n# name: a\r\nt:\r\n")
	return out
}

func typeConfusionsStar() []string {
	menu := []string{"None", "0", "-1.5", "True", `""`, `"s"`, "[]", "[None]", "[[]]", "{}", `{"x": None}`, "[1]", `["a", None]`, "[{}]",
		`{1: 2}`, `("a",)`, "lambda: 1", "target", `"//:"`, `"::"`, `["::"]`, `[""]`, `{"": ""}`, `[{"command": None}]`, `[{"command": 1}]`,
		`[{"expected_output": "x"}]`, `[{"command": "c", "nope": 1}]`}
	kw := map[string][]string{
		"target": {"name", "command", "dependencies", "inputs", "exclude_inputs", "outputs", "bin_output", "output_checks", "tags", "fingerprint",
			"platforms", "environment_variables", "timeout", "nope"},
		"alias":       {"name", "actual", "nope"},
		"environment": {"name", "type", "dependencies", "docker_image", "nope"},
	}
	base := map[string]string{"target": `name = "t", command = "x"`, "alias": `name = "al", actual = ":t"`, "environment": `name = "e", type = "docker", docker_image = "i"`}
	var out []string
	for _, fn := range []string{"target", "alias", "environment"} {
		for _, k := range kw[fn] {
			for _, m := range menu {
				out = append(out, fmt.Sprintf("%s(%s = %s)\n", fn, k, m))
				if k != "name" {
					out = append(out, fmt.Sprintf("%s(name = \"z\", %s = %s)\n", fn, k, m))
				}
				out = append(out, fmt.Sprintf("%s(%s, %s = %s)\n", fn, base[fn], k, m))
			}
		}
		for _, m := range menu {
			out = append(out, fmt.Sprintf("%s(%s)\n", fn, m), fmt.Sprintf("%s(*%s)\n", fn, m), fmt.Sprintf("%s(**%s)\n", fn, m))
		}
		out = append(out, fn+"()\n", fn+"\n", fn+" = 1\n"+fn+"()\n", fmt.Sprintf("x = %s(%s)\nx()\n", fn, base[fn]), fmt.Sprintf("[%s(%s) for _ in range(3)]\n", fn, base[fn]))
	}
	out = append(out, "def f():\n    f()\nf()\n", "def f():\n    target(name = \"t\", command = \"x\")\nf()\nf()\n", "load(\"x.star\", \"y\")\n",
		"load(\"BUILD.star\", \"y\")\n", "for i in range(1000000000): pass\n", "x = [0] * 100\nx[200]\n", "fail(\"no\")\n", "1 // 0\n",
		"target(name = \"t\" * 100000, command = \"x\")\n", "print(target)\n", "target(name = \"t\", command = \"x\").nope\n")
	return out
}

// script targets (*.grog.sh): the annotation block after "# @grog" is YAML in comments
func typeConfusionsScript() []string {
	fields := []string{"name", "dependencies", "inputs", "tags", "fingerprint", "platforms", "environment_variables", "timeout", "outputs", "unknown_field"}
	var out []string
	for _, f := range fields {
		for _, m := range confusionMenu {
			out = append(out, fmt.Sprintf("#!/bin/sh\n# @grog\n# %s: %s\necho hi\n", f, m))
		}
		out = append(out, fmt.Sprintf("#!/bin/sh\n# @grog\n# %s:\necho hi\n", f), fmt.Sprintf("#!/bin/sh\n# @grog\n# %s:\n#   -\necho hi\n", f),
			fmt.Sprintf("#!/bin/sh\n# @grog\n# %s:\n#   ~: ~\necho hi\n", f))
	}
	long := strings.Repeat("x", 70000)
	out = append(out, "", "#!/bin/sh\n", "# @grog", "# @grog\n", "# @grog\n#", "# @grog\n#\n", "# @grog\n# name: a", "# @grog\n# name: a\n", "# @grog\n\n\n", "# @grog\necho\n",
		"# @grog\n# name: a\n# @grog\n# name: b\necho\n", "# @grog\n# name: a\necho\n# @grog\n# name: b\necho\n", "#@grog\n# name: a\necho\n", "  # @grog  \n  #   name: a\n  echo\n",
		"# @grog\n# - a\necho\n", "# @grog\n# ~\necho\n", "# @grog\n# []\necho\n", "# @grog\n# x\necho\n", "# @grog\n# name: [\necho\n", "# @grog\n#\tname: a\necho\n",
		"# @grog\r\n# name: a\r\necho\r\n", "# @grog\n# name: "+long+"\necho\n", "# @grog\n# "+long+"\necho\n", long+"\n# @grog\n# name: a\necho\n", "# @grog\n# name: a/b\necho\n",
		"# @grog\n# name: \"\"\necho\n", "# @grog\n# name: ..\necho\n", "# @grog\n# dependencies: [\":\"]\necho\n", "# @grog\n# dependencies: [\"//:\"]\necho\n",
		"# @grog\n# inputs: [\"../x\"]\necho\n", "# @grog\n# inputs: [\"/abs\"]\necho\n", "# @grog\n# timeout: -5s\necho\n", "# @grog\n# timeout: 5 parsecs\necho\n",
		"# @grog\n# platforms: [\"\"]\necho\n", "\x00\x00\x00", "\xff\xfe# @grog\n# name: a\necho\n")
	return out
}

var singleEditSeeds = map[string]string{
	"t.grog.sh": "#!/bin/sh\n# @grog\n# name: n\n# inputs: [\"a.txt\"]\n# dependencies:\n#   - \":u\"\n# fingerprint: {k: v}\n# timeout: 5s\necho building\n",
	"BUILD.json": `{"targets":[{"name":"t","command":"x","inputs":["a.txt"],"outputs":["dir::d"],"fingerprint":{"k":"v"},"timeout":"5s"}],"aliases":[{"name":"al","actual":":t"}]}`,
	"BUILD.yaml": "targets:\n  - name: t\n    command: x\n    inputs: [\"a.txt\"]\n    outputs:\n      - dir::d\n    fingerprint: {k: v}\n    timeout: 5s\naliases:\n  - name: al\n    actual: \":t\"\n",
	"BUILD.star": "target(\n    name = \"t\",\n    command = \"x\",\n    inputs = [\"a.txt\"],\n    fingerprint = {\"k\": \"v\"},\n    timeout = \"5s\",\n)\nalias(name = \"al\", actual = \":t\")\n",
	"Makefile":   "# @grog\n# name: n\n# inputs: [\"a.txt\"]\n# outputs:\n#   - dir::d\n# fingerprint: {k: v}\n# timeout: 5s\nt:\n\techo building\n",
}

// singleEdits: every deletion, truncation and junk insertion at every position (thorough: also every junk replacement and every
// adjacent transposition and line deletion/duplication).
func singleEdits(text string, thorough bool) []string {
	var out []string
	b := []byte(text)
	for pos := 0; pos <= len(b); pos++ {
		out = append(out, string(b[:pos]))
		if pos < len(b) {
			out = append(out, string(b[:pos])+string(b[pos+1:]))
		}
		for _, j := range []byte(junk + "\x00\xff -~*&!|>%") {
			out = append(out, string(b[:pos])+string(j)+string(b[pos:]))
			if thorough && pos < len(b) {
				out = append(out, string(b[:pos])+string(j)+string(b[pos+1:]))
			}
		}
		if thorough && pos+1 < len(b) {
			out = append(out, string(b[:pos])+string(b[pos+1])+string(b[pos])+string(b[pos+2:]))
		}
	}
	lines := strings.SplitAfter(text, "\n")
	for i := range lines {
		out = append(out, strings.Join(lines[:i], "")+strings.Join(lines[i+1:], ""))
		out = append(out, strings.Join(lines[:i+1], "")+strings.Join(lines[i:], ""))
	}
	return out
}
