package main

import (
	"context"
	"fmt"
	"os"

	"go.uber.org/zap"
	"go.uber.org/zap/zapcore"

	"grog/internal/config"
	"grog/internal/console"
	"grog/internal/locking"
	"grog/internal/verifhook"
)

// lockproc <root> <workspace>: one contender of C10. Runs the repository's real Lock / Unlock as a separate OS process;
// every file-system call inside them is a gate the external controller (vlib/checks/c10.py) releases one at a time.
func init() { register("lockproc", lockproc) }

func lockproc(args []string) error {
	if len(args) != 2 {
		return fmt.Errorf("usage: lockproc <grog root> <workspace root>")
	}
	config.Global.Root, config.Global.WorkspaceRoot = args[0], args[1]
	if err := os.MkdirAll(config.Global.GetWorkspaceRootDir(), 0755); err != nil {
		return err
	}
	devnull, _ := os.OpenFile(os.DevNull, os.O_WRONLY, 0)
	os.Stdout = devnull
	ctx := console.WithLogger(context.Background(), console.NewFromSugared(zap.NewNop().Sugar(), zapcore.FatalLevel))
	locker := locking.NewWorkspaceLocker()
	if err := locker.Lock(ctx); err != nil {
		verifhook.Emit("proc.lockerror", "err", err.Error())
		return err
	}
	verifhook.Emit("cs.enter")
	verifhook.Gate("cs")
	verifhook.Emit("cs.exit")
	if err := locker.Unlock(); err != nil {
		verifhook.Emit("proc.unlockerror", "err", err.Error())
		return err
	}
	verifhook.Emit("proc.done")
	return nil
}
