package main

import (
	"fmt"
	"sort"
	"strings"

	"grog/internal/label"
)

// labels: binding B3 for C17. Input: the reference table exported by spec/Labels.tla.
// Every string of the same universe is fed to the real parser and compared.

type labelRow struct {
	S, Class, Pkg, Name string
}
type patRow struct {
	S, Class, Printed string
	Matches           []string
}
type labelsExport struct {
	L          int
	Cur        string
	Sigma      []string
	Universe   []struct{ Pkg, Name string }
	Total      int
	Extra      []string
	Labels     []labelRow
	Patterns   []patRow
	Pattern_mr []string
}

type disagreement struct {
	Kind     string `json:"kind"`
	S        string `json:"s"`
	Expected string `json:"expected"`
	Got      string `json:"got"`
}

func init() { register("labels", labelsDriver) }

func enumStrings(sigma []string, L int, f func(string)) {
	var rec func(prefix string, n int)
	rec = func(prefix string, n int) {
		f(prefix)
		if n == L {
			return
		}
		for _, c := range sigma {
			rec(prefix+c, n+1)
		}
	}
	rec("", 0)
}

func safeLabel(cur, s string) (l label.TargetLabel, err error, panicked any) {
	defer func() { panicked = recover() }()
	l, err = label.ParseTargetLabel(cur, s)
	return
}

func safePattern(cur, s string) (p label.TargetPattern, err error, panicked any) {
	defer func() { panicked = recover() }()
	p, err = label.ParseTargetPattern(cur, s)
	return
}

func matchSet(p label.TargetPattern, uni []label.TargetLabel) string {
	var out []string
	for _, l := range uni {
		if p.Matches(l) {
			out = append(out, l.String())
		}
	}
	sort.Strings(out)
	return strings.Join(out, " ")
}

func labelsDriver(args []string) error {
	if len(args) != 2 {
		return fmt.Errorf("usage: labels <export.json> <out.json>")
	}
	var ex labelsExport
	if err := readJSON(args[0], &ex); err != nil {
		return err
	}
	sort.Strings(ex.Sigma)
	lab := map[string]labelRow{}
	for _, r := range ex.Labels {
		lab[r.S] = r
	}
	pat := map[string]patRow{}
	for _, r := range ex.Patterns {
		pat[r.S] = r
	}
	patMR := map[string]bool{}
	for _, s := range ex.Pattern_mr {
		patMR[s] = true
	}
	var uni []label.TargetLabel
	for _, u := range ex.Universe {
		uni = append(uni, label.TargetLabel{Package: u.Pkg, Name: u.Name})
	}

	dis := []disagreement{}
	add := func(kind, s, exp, got string) {
		if len(dis) < 200 {
			dis = append(dis, disagreement{kind, s, exp, got})
		}
	}
	counts := map[string]int{}
	total := 0
	extra := false
	var each func(s string)
	defer func() {}()
	each = func(s string) {
		if !extra {
			total++
		}
		prefixed := strings.HasPrefix(s, "//") || strings.HasPrefix(s, ":")
		// ---- labels
		l, err, pn := safeLabel(ex.Cur, s)
		if pn != nil {
			add("label-panic", s, "no panic", fmt.Sprint(pn))
		} else {
			row, inTable := lab[s]
			switch {
			case inTable && row.Class == "wf":
				counts["label-wf"]++
				if err != nil {
					add("label-wf-rejected", s, "//"+row.Pkg+":"+row.Name, "error: "+err.Error())
				} else if l.Package != row.Pkg || l.Name != row.Name {
					add("label-wf-mismatch", s, "//"+row.Pkg+":"+row.Name, l.String())
				}
			case inTable: // other
				counts["label-other"]++
			default: // must reject
				counts["label-mr"]++
				if err == nil {
					add("label-mr-accepted", s, "error", l.String())
				}
			}
			if err == nil {
				// printing a label and parsing it again gives the same label
				l2, err2, pn2 := safeLabel("", l.String())
				if pn2 != nil || err2 != nil || l2 != l {
					add("label-roundtrip", s, l.String(), fmt.Sprintf("%v err=%v panic=%v", l2, err2, pn2))
				}
			}
		}
		// ---- patterns
		p, perr, ppn := safePattern(ex.Cur, s)
		if ppn != nil {
			add("pattern-panic", s, "no panic", fmt.Sprint(ppn))
			return
		}
		row, inTable := pat[s]
		switch {
		case inTable:
			counts["pattern-wf"]++
			want := append([]string{}, row.Matches...)
			sort.Strings(want)
			if perr != nil {
				add("pattern-wf-rejected", s, strings.Join(want, " "), "error: "+perr.Error())
			} else if got := matchSet(p, uni); got != strings.Join(want, " ") {
				add("pattern-wf-matchset", s, strings.Join(want, " "), got)
			}
		case patMR[s] || (!prefixed && !strings.Contains(s, ":")):
			counts["pattern-mr"]++
			if perr == nil {
				add("pattern-mr-accepted", s, "error", p.String())
			}
		default:
			counts["pattern-other"]++
		}
		if perr == nil {
			// printing then re-parsing a pattern preserves the set of labels it matches
			q, qerr, qpn := safePattern("", p.String())
			if qpn != nil || qerr != nil {
				add("pattern-reparse", s, p.String(), fmt.Sprintf("err=%v panic=%v", qerr, qpn))
			} else if matchSet(q, uni) != matchSet(p, uni) {
				add("pattern-reparse-matchset", s, matchSet(p, uni), matchSet(q, uni))
			}
		}
	}
	enumStrings(ex.Sigma, ex.L, each)
	extra = true
	for _, s := range ex.Extra {
		each(s)
	}
	if total != ex.Total {
		return fmt.Errorf("universe mismatch: enumerated %d strings, the specification %d", total, ex.Total)
	}
	return writeJSON(args[1], map[string]any{"total": total + len(ex.Extra), "counts": counts, "disagreements": dis})
}
