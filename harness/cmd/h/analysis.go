package main

import (
	"context"
	"encoding/json"
	"fmt"
	"os"
	"path/filepath"
	"strconv"
	"strings"

	"go.uber.org/zap"
	"go.uber.org/zap/zapcore"

	"grog/internal/analysis"
	"grog/internal/config"
	"grog/internal/console"
	"grog/internal/loading"
	"grog/internal/model"
)

// analysis: binding B3 for C11. Every graph enumerated by spec/Analysis.tla is rendered to BUILD files and pushed
// through the real loader, BuildNodeMapFromPackages, analysis.BuildGraph and CheckTargetConstraints; accept/reject
// must equal the specification's Valid.

type aNode struct {
	Kind   string   `json:"kind"`
	Deps   []string `json:"deps"`
	Flag   string   `json:"flag"`
	Actual string   `json:"actual"`
}
type outSpec struct {
	Kind string   `json:"kind"`
	Path []string `json:"path"`
	Abs  bool     `json:"abs"`
}
type caseA struct {
	G       map[string]aNode `json:"g"`
	Valid   bool             `json:"valid"`
	Reasons []string         `json:"reasons"`
}
type caseB struct {
	G struct {
		Shape string             `json:"shape"`
		Out   map[string]outSpec `json:"out"`
	} `json:"g"`
	Valid   bool     `json:"valid"`
	Reasons []string `json:"reasons"`
}
type caseC struct {
	G []struct {
		Path []string `json:"path"`
		Abs  bool     `json:"abs"`
	} `json:"g"`
	Valid bool `json:"valid"`
}
type caseD struct {
	Name  string `json:"name"`
	Valid bool   `json:"valid"`
}
type analysisCases struct {
	A []caseA
	B []caseB
	C []caseC
	D []caseD
}

func init() {
	register("analysis", analysisDriver)
	register("analysis-render", analysisRender)
}

const ranCmd = `echo ran >> "$GROG_WORKSPACE_ROOT/../ran"`

func writeBuild(dir string, pkg map[string]any) error {
	if err := os.MkdirAll(dir, 0755); err != nil {
		return err
	}
	b, _ := json.MarshalIndent(pkg, "", " ")
	return os.WriteFile(filepath.Join(dir, "BUILD.json"), b, 0644)
}

func nameA(g map[string]aNode, id string) string {
	if n, ok := g[id]; ok && n.Kind == "target" && n.Flag == "test" {
		return id + "_test"
	}
	return id
}

func renderA(root string, c caseA) error {
	var targets, aliases []map[string]any
	for _, id := range []string{"n1", "n2", "n3"} {
		n := c.G[id]
		if n.Kind == "alias" {
			aliases = append(aliases, map[string]any{"name": id, "actual": ":" + nameA(c.G, n.Actual)})
			continue
		}
		t := map[string]any{"name": nameA(c.G, id), "command": ranCmd}
		var deps []string
		for _, d := range n.Deps {
			deps = append(deps, ":"+nameA(c.G, d))
		}
		if deps != nil {
			t["dependencies"] = deps
		}
		if n.Flag == "testonly" {
			t["tags"] = []string{"testonly"}
		}
		targets = append(targets, t)
	}
	return writeBuild(filepath.Join(root, "p"), map[string]any{"targets": targets, "aliases": aliases})
}

// currentRootBase is the name of the workspace directory of the case being rendered (the path component "SIB" stands for a
// sibling directory whose name extends it)
var currentRootBase string

func outString(o outSpec) string {
	comps := make([]string, len(o.Path))
	for i, c := range o.Path {
		if c == "SIB" {
			c = currentRootBase + "-x"
		}
		comps[i] = c
	}
	p := strings.Join(comps, "/")
	if len(comps) > 1 && comps[len(comps)-1] == "." {
		p = strings.Join(comps[:len(comps)-1], "/") + "/"
	}
	if o.Abs {
		p = "/" + p
	}
	switch o.Kind {
	case "dir":
		return "dir::" + p
	case "docker":
		return "docker::" + p
	}
	return p
}

func renderB(root string, c caseB) error {
	mk := func(name string, deps []string) map[string]any {
		t := map[string]any{"name": name, "command": ranCmd}
		if o := c.G.Out[name]; o.Kind != "none" && o.Kind != "" {
			t["outputs"] = []string{outString(o)}
		}
		if deps != nil {
			t["dependencies"] = deps
		}
		return t
	}
	var d2, d3 []string
	var aliases []map[string]any
	switch c.G.Shape {
	case "t2->t1":
		d2 = []string{":t1"}
	case "t3->t1":
		d3 = []string{"//p:t1"}
	case "t3->t2->t1":
		d2, d3 = []string{":t1"}, []string{"//p:t2"}
	case "t2->a->t1":
		d2 = []string{":a"}
		aliases = append(aliases, map[string]any{"name": "a", "actual": ":t1"})
	}
	if err := writeBuild(filepath.Join(root, "p"), map[string]any{"targets": []map[string]any{mk("t1", nil), mk("t2", d2)}, "aliases": aliases}); err != nil {
		return err
	}
	return writeBuild(filepath.Join(root, "p", "d"), map[string]any{"targets": []map[string]any{mk("t3", d3)}})
}

func renderC(root string, c caseC) error {
	var ins []string
	for _, i := range c.G {
		p := strings.Join(i.Path, "/")
		if i.Abs {
			p = "/" + p
		}
		ins = append(ins, p)
	}
	t := map[string]any{"name": "t", "command": ranCmd}
	if ins != nil {
		t["inputs"] = ins
	}
	return writeBuild(filepath.Join(root, "p"), map[string]any{"targets": []map[string]any{t}})
}

func renderD(root string, c caseD) error {
	tgt := func(n string) map[string]any { return map[string]any{"name": n, "command": ranCmd} }
	ali := func(n, a string) map[string]any { return map[string]any{"name": n, "actual": a} }
	p := filepath.Join(root, "p")
	yaml := func(body string) error {
		if err := os.MkdirAll(p, 0755); err != nil {
			return err
		}
		return os.WriteFile(filepath.Join(p, "BUILD.yaml"), []byte(body), 0644)
	}
	switch c.Name {
	case "dup-target-target-same-file":
		return writeBuild(p, map[string]any{"targets": []map[string]any{tgt("x"), tgt("x")}})
	case "dup-target-alias-same-file":
		return writeBuild(p, map[string]any{"targets": []map[string]any{tgt("x"), tgt("y")}, "aliases": []map[string]any{ali("x", ":y")}})
	case "dup-alias-alias-same-file":
		return writeBuild(p, map[string]any{"targets": []map[string]any{tgt("y")}, "aliases": []map[string]any{ali("x", ":y"), ali("x", ":y")}})
	case "dup-target-target-two-files":
		if err := writeBuild(p, map[string]any{"targets": []map[string]any{tgt("x")}}); err != nil {
			return err
		}
		return yaml("targets:\n  - name: x\n    command: \"true\"\n")
	case "dup-target-alias-two-files":
		if err := writeBuild(p, map[string]any{"targets": []map[string]any{tgt("x"), tgt("y")}}); err != nil {
			return err
		}
		return yaml("aliases:\n  - name: x\n    actual: \":y\"\n")
	case "same-name-different-packages":
		if err := writeBuild(p, map[string]any{"targets": []map[string]any{tgt("x")}}); err != nil {
			return err
		}
		return writeBuild(filepath.Join(root, "q"), map[string]any{"targets": []map[string]any{tgt("x")}})
	case "same-name-target-and-alias-different-packages":
		if err := writeBuild(p, map[string]any{"targets": []map[string]any{tgt("x")}}); err != nil {
			return err
		}
		return writeBuild(filepath.Join(root, "q"), map[string]any{"aliases": []map[string]any{ali("x", "//p:x")}})
	}
	return fmt.Errorf("unknown family D case %q", c.Name)
}

func realVerdict(ctx context.Context, logger *console.Logger, root string) (accepted bool, stage string, msg string) {
	defer func() {
		if r := recover(); r != nil {
			accepted, stage, msg = false, "panic", fmt.Sprint(r)
		}
	}()
	config.Global.WorkspaceRoot = root
	pkgs, err := loading.LoadPackages(ctx, root)
	if err != nil {
		return false, "load", err.Error()
	}
	nodes, err := model.BuildNodeMapFromPackages(pkgs)
	if err != nil {
		return false, "nodemap", err.Error()
	}
	graph, err := analysis.BuildGraph(nodes)
	if err != nil {
		return false, "graph", err.Error()
	}
	if errs := analysis.CheckTargetConstraints(logger, graph.GetNodes()); len(errs) > 0 {
		return false, "constraints", errs[0].Error()
	}
	return true, "ok", ""
}

func analysisDriver(args []string) error {
	if len(args) != 3 {
		return fmt.Errorf("usage: analysis <cases.json> <scratch> <out.json>")
	}
	var cs analysisCases
	if err := readJSON(args[0], &cs); err != nil {
		return err
	}
	devnull, _ := os.OpenFile(os.DevNull, os.O_WRONLY, 0)
	os.Stdout = devnull // LoadPackages prints load errors
	logger := console.NewFromSugared(zap.NewNop().Sugar(), zapcore.FatalLevel)
	ctx := console.WithLogger(context.Background(), logger)
	config.Global.NumWorkers = 2
	config.Global.Root = filepath.Join(args[1], "groot")
	type dis struct {
		Family string `json:"family"`
		Index  int    `json:"index"`
		Case   any    `json:"case"`
		Model  bool   `json:"model_valid"`
		Real   bool   `json:"real_accepted"`
		Stage  string `json:"stage"`
		Msg    string `json:"msg"`
	}
	var out []dis
	counts := map[string]int{}
	n := 0
	run := func(fam string, idx int, c any, valid bool, render func(root string) error) error {
		n++
		root := filepath.Join(args[1], "w", strconv.Itoa(n%64))
		_ = os.RemoveAll(root)
		if err := os.MkdirAll(root, 0755); err != nil {
			return err
		}
		if err := os.WriteFile(filepath.Join(root, "grog.toml"), nil, 0644); err != nil {
			return err
		}
		currentRootBase = filepath.Base(root)
		if err := render(root); err != nil {
			return err
		}
		acc, stage, msg := realVerdict(ctx, logger, root)
		counts[fmt.Sprintf("%s/%v", fam, valid)]++
		if acc != valid || stage == "panic" {
			if len(out) < 300 {
				out = append(out, dis{fam, idx, c, valid, acc, stage, msg})
			}
		}
		return nil
	}
	for i, c := range cs.A {
		if err := run("A", i, c, c.Valid, func(r string) error { return renderA(r, c) }); err != nil {
			return err
		}
	}
	for i, c := range cs.B {
		if err := run("B", i, c, c.Valid, func(r string) error { return renderB(r, c) }); err != nil {
			return err
		}
	}
	for i, c := range cs.C {
		if err := run("C", i, c, c.Valid, func(r string) error { return renderC(r, c) }); err != nil {
			return err
		}
	}
	for i, c := range cs.D {
		if err := run("D", i, c, c.Valid, func(r string) error { return renderD(r, c) }); err != nil {
			return err
		}
	}
	if out == nil {
		out = []dis{}
	}
	return writeJSON(args[2], map[string]any{"counts": counts, "total": n, "disagreements": out})
}

// analysis-render <cases.json> <family> <index> <dir>: materialise one case (for the CLI sample)
func analysisRender(args []string) error {
	if len(args) != 4 {
		return fmt.Errorf("usage: analysis-render <cases.json> <family> <index> <dir>")
	}
	var cs analysisCases
	if err := readJSON(args[0], &cs); err != nil {
		return err
	}
	idx, _ := strconv.Atoi(args[2])
	root := args[3]
	if err := os.MkdirAll(root, 0755); err != nil {
		return err
	}
	if err := os.WriteFile(filepath.Join(root, "grog.toml"), nil, 0644); err != nil {
		return err
	}
	switch args[1] {
	case "A":
		return renderA(root, cs.A[idx])
	case "B":
		return renderB(root, cs.B[idx])
	case "C":
		return renderC(root, cs.C[idx])
	case "D":
		return renderD(root, cs.D[idx])
	}
	return fmt.Errorf("unknown family")
}
