package main

import (
	"context"
	"fmt"
	"time"

	"go.uber.org/zap"
	"go.uber.org/zap/zapcore"

	"grog/internal/analysis"
	"grog/internal/config"
	"grog/internal/console"
	"grog/internal/dag"
	"grog/internal/label"
	"grog/internal/model"
	"grog/internal/selection"
	"grog/internal/verifhook"
)

// traversal: binding for C19. The real graph operations run on ladders (layered complete bipartite graphs with
// exponentially many paths), dense DAGs and chains of the same size; the work counters compiled into their loops
// (verifhook.Count) must stay within the bound spec/Traversal.tla gives for a visited-set traversal.

func init() { register("traversal", traversalDriver) }

type tvGraph struct {
	name  string
	nodes []*model.Target
	edges int
	root  *model.Target // no dependencies
	leaf  *model.Target // nobody depends on it
}

func mkTarget(i int) *model.Target {
	return &model.Target{Label: label.TL("p", fmt.Sprintf("t%d", i)), Command: "true", Outputs: []model.Output{model.NewOutput("file", fmt.Sprintf("o%d", i))}}
}

func ladder(depth, width int) tvGraph {
	g := tvGraph{name: fmt.Sprintf("ladder(depth=%d,width=%d)", depth, width)}
	var prev []*model.Target
	id := 0
	root := mkTarget(id)
	id++
	g.nodes = append(g.nodes, root)
	g.root = root
	prev = []*model.Target{root}
	for l := 0; l < depth; l++ {
		var cur []*model.Target
		for k := 0; k < width; k++ {
			t := mkTarget(id)
			id++
			for _, p := range prev {
				t.Dependencies = append(t.Dependencies, p.Label)
				g.edges++
			}
			cur = append(cur, t)
			g.nodes = append(g.nodes, t)
		}
		prev = cur
	}
	leaf := mkTarget(id)
	for _, p := range prev {
		leaf.Dependencies = append(leaf.Dependencies, p.Label)
		g.edges++
	}
	g.nodes = append(g.nodes, leaf)
	g.leaf = leaf
	return g
}

func chain(n int) tvGraph {
	g := tvGraph{name: fmt.Sprintf("chain(n=%d)", n)}
	for i := 0; i < n; i++ {
		t := mkTarget(i)
		if i > 0 {
			t.Dependencies = []label.TargetLabel{g.nodes[i-1].Label}
			g.edges++
		}
		g.nodes = append(g.nodes, t)
	}
	g.root, g.leaf = g.nodes[0], g.nodes[n-1]
	return g
}

func dense(n int) tvGraph {
	g := tvGraph{name: fmt.Sprintf("dense(n=%d)", n)}
	for i := 0; i < n; i++ {
		t := mkTarget(i)
		for j := 0; j < i; j++ {
			t.Dependencies = append(t.Dependencies, g.nodes[j].Label)
			g.edges++
		}
		g.nodes = append(g.nodes, t)
	}
	g.root, g.leaf = g.nodes[0], g.nodes[n-1]
	return g
}

type tvRow struct {
	Graph  string  `json:"graph"`
	Op     string  `json:"op"`
	V      int     `json:"v"`
	E      int     `json:"e"`
	Work   int64   `json:"work"`
	Bound  int64   `json:"bound"`
	Millis float64 `json:"ms"`
	Result int     `json:"result"`
	Dups   int     `json:"duplicates"`
	Err    string  `json:"err"`
	// TimedOut: the operation did not return within opTimeout although the graph is small
	TimedOut bool `json:"timed_out"`
}

const opTimeout = 20 * time.Second

func traversalDriver(args []string) error {
	if len(args) != 2 {
		return fmt.Errorf("usage: traversal <quick|thorough> <out.json>")
	}
	depths := []int{2, 3, 4, 6, 8, 10, 12, 14, 16, 20, 28, 40}
	denseN := []int{6, 10, 14, 18, 22}
	if args[0] == "thorough" {
		depths = append(depths, 80, 160, 400)
		denseN = append(denseN, 26, 40, 80)
	}
	logger := console.NewFromSugared(zap.NewNop().Sugar(), zapcore.FatalLevel)
	ctx := console.WithLogger(context.Background(), logger)
	config.Global.OS, config.Global.Arch = "linux", "amd64"
	var rows []tvRow
	blown := map[string]bool{} // op -> a previous size already exceeded its bound by far: larger sizes are not attempted
	runOps := func(g tvGraph) error {
		fresh := func() (*dag.DirectedTargetGraph, model.BuildNodeMap, error) {
			nodes := model.BuildNodeMap{}
			for _, t := range g.nodes {
				c := *t
				c.IsSelected = false
				nodes[c.Label] = &c
			}
			gr, err := analysis.BuildGraph(nodes)
			return gr, nodes, err
		}
		v, e := len(g.nodes), g.edges
		lin := int64(e + v)
		ops := []struct {
			name    string
			counter string
			bound   int64
			run     func() (int, int, error)
		}{
			{"descendants", "dag.descendants", lin, func() (int, int, error) {
				gr, nodes, err := fresh()
				if err != nil {
					return 0, 0, err
				}
				verifhook.ResetCounters()
				res := gr.GetDescendants(nodes[g.root.Label])
				seen := map[label.TargetLabel]bool{}
				for _, n := range res {
					seen[n.GetLabel()] = true
				}
				return len(seen), len(res) - len(seen), nil
			}},
			{"ancestors", "dag.ancestors", lin, func() (int, int, error) {
				gr, nodes, err := fresh()
				if err != nil {
					return 0, 0, err
				}
				verifhook.ResetCounters()
				res := gr.GetAncestors(nodes[g.leaf.Label])
				seen := map[label.TargetLabel]bool{}
				for _, n := range res {
					seen[n.GetLabel()] = true
				}
				return len(seen), len(res) - len(seen), nil
			}},
			{"select-for-build", "select.ancestors", lin, func() (int, int, error) {
				gr, _, err := fresh()
				if err != nil {
					return 0, 0, err
				}
				verifhook.ResetCounters()
				pat := label.TargetPatternFromLabel(g.leaf.Label)
				n, _, err := selection.New([]label.TargetPattern{pat}, nil, nil, selection.NonTestOnly).SelectTargetsForBuild(gr)
				return n, 0, err
			}},
			{"output-conflicts", "conflict.ancestors", int64(v) * lin, func() (int, int, error) {
				verifhook.ResetCounters()
				_, _, err := fresh()
				return 0, 0, err
			}},
			{"failure-propagation", "dag.descendants", lin, func() (int, int, error) {
				gr, nodes, err := fresh()
				if err != nil {
					return 0, 0, err
				}
				for _, n := range nodes {
					n.Select()
				}
				verifhook.ResetCounters()
				w := dag.NewWalker(gr, func(_ context.Context, n model.BuildNode) (dag.CacheResult, error) {
					if n.GetLabel() == g.root.Label {
						return dag.CacheMiss, fmt.Errorf("root fails")
					}
					return dag.CacheHit, nil
				}, false)
				wctx, cancel := context.WithTimeout(ctx, 120*time.Second)
				defer cancel()
				cm, err := w.Walk(wctx)
				return len(cm), 0, err
			}},
		}
		for _, op := range ops {
			if blown[op.name] {
				continue
			}
			t0 := time.Now()
			type outcome struct {
				res, dups int
				err       error
			}
			ch := make(chan outcome, 1)
			go func() {
				r, d, e := op.run()
				ch <- outcome{r, d, e}
			}()
			var o outcome
			timedOut := false
			select {
			case o = <-ch:
			case <-time.After(opTimeout):
				// an operation that the specified traversal finishes in microseconds is still running: work that bypasses the
				// counted loops. It cannot be stopped; larger graphs are not attempted for this operation.
				timedOut = true
			}
			row := tvRow{Graph: g.name, Op: op.name, V: v, E: e, Work: verifhook.Counters()[op.counter], Bound: op.bound,
				Millis: float64(time.Since(t0).Microseconds()) / 1000, Result: o.res, Dups: o.dups}
			if o.err != nil {
				row.Err = o.err.Error()
			}
			if timedOut {
				row.TimedOut = true
				blown[op.name] = true
			}
			rows = append(rows, row)
			if row.Work > 64*op.bound {
				blown[op.name] = true
			}
		}
		return nil
	}
	// attributed: the same graph with every target carrying a platform selector that matches the host, a tag and a timeout —
	// attributes a traversal may consult per node but that must not change how often it visits one
	attributed := func(g tvGraph) tvGraph {
		a := tvGraph{name: g.name + "+platforms", edges: g.edges}
		for _, t := range g.nodes {
			c := *t
			c.Platforms = []string{"linux/amd64", "darwin/arm64"}
			c.Tags = []string{"k"}
			a.nodes = append(a.nodes, &c)
			if t == g.root {
				a.root = &c
			}
			if t == g.leaf {
				a.leaf = &c
			}
		}
		return a
	}
	for _, d := range depths {
		for _, w := range []int{2, 3} {
			g := ladder(d, w)
			if err := runOps(g); err != nil {
				return err
			}
			if err := runOps(attributed(g)); err != nil {
				return err
			}
			if err := runOps(chain(len(g.nodes))); err != nil {
				return err
			}
		}
	}
	for _, n := range denseN {
		if err := runOps(dense(n)); err != nil {
			return err
		}
	}
	return writeJSON(args[1], rows)
}
