package main

import (
	"fmt"
	"sort"
	"strings"

	"grog/internal/analysis"
	"grog/internal/config"
	"grog/internal/label"
	"grog/internal/model"
	"grog/internal/selection"
)

// selection: binding B3 for C12. Every (graph, invocation) pair enumerated by spec/Selection.tla is built as real
// model nodes + analysis.BuildGraph and selected by the real selection.Selector; the selected target set (or the
// platform error) must equal the specification's.

type selGraph struct {
	Alias2 string              `json:"alias2"`
	Deps   map[string][]string `json:"deps"`
	Tag    []string            `json:"tag"`
	Test   []string            `json:"test"`
	Plat   map[string]string   `json:"plat"`
	Layout string              `json:"layout"`
}
type selInv struct {
	Pats []string `json:"pats"`
	Tagf string   `json:"tagf"`
	Type string   `json:"type"`
	Allp bool     `json:"allp"`
}
type selResult struct {
	Kind string   `json:"kind"`
	Sel  []string `json:"sel"`
}
type selCases struct {
	Invocations []selInv `json:"invocations"`
	Graphs      []struct {
		G       selGraph    `json:"g"`
		Results []selResult `json:"results"`
	} `json:"graphs"`
}

func init() { register("selection", selectionDriver) }

var selPkg = map[string]string{"n1": "p", "n2": "p", "n3": "p/q", "r": "r"}

func has(xs []string, x string) bool {
	for _, y := range xs {
		if y == x {
			return true
		}
	}
	return false
}

func selName(g selGraph, n string) string {
	if has(g.Test, n) {
		return n + "test"
	}
	return n
}

func selLabel(g selGraph, n string) label.TargetLabel {
	pkg := selPkg[n]
	if n == "r" && g.Layout == "root" {
		pkg = ""
	}
	return label.TargetLabel{Package: pkg, Name: selName(g, n)}
}

func buildSelNodes(g selGraph) model.BuildNodeMap {
	nodes := model.BuildNodeMap{}
	for _, n := range []string{"n1", "n2", "n3", "r"} {
		if n == "n2" && g.Alias2 != "none" {
			nodes[selLabel(g, n)] = &model.Alias{Label: selLabel(g, n), Actual: selLabel(g, g.Alias2)}
			continue
		}
		t := &model.Target{Label: selLabel(g, n), Command: "true"}
		for _, d := range g.Deps[n] {
			t.Dependencies = append(t.Dependencies, selLabel(g, d))
		}
		if has(g.Tag, n) {
			t.Tags = []string{"t1"}
		}
		switch g.Plat[n] {
		case "host":
			t.Platforms = []string{"linux/amd64"}
		case "other":
			t.Platforms = []string{"darwin/arm64"}
		}
		nodes[t.Label] = t
	}
	return nodes
}

func selectionDriver(args []string) error {
	if len(args) != 2 {
		return fmt.Errorf("usage: selection <cases.json> <out.json>")
	}
	var cs selCases
	if err := readJSON(args[0], &cs); err != nil {
		return err
	}
	config.Global.OS, config.Global.Arch = "linux", "amd64"
	type dis struct {
		Graph selGraph `json:"graph"`
		Inv   selInv   `json:"inv"`
		Model string   `json:"model"`
		Real  string   `json:"real"`
	}
	var out []dis
	counts := map[string]int{}
	total := 0
	for _, gc := range cs.Graphs {
		for k, inv := range cs.Invocations {
			want := gc.Results[k]
			counts[want.Kind]++
			if want.Kind == "undefined" {
				continue
			}
			total++
			nodes := buildSelNodes(gc.G)
			graph, err := analysis.BuildGraph(nodes)
			if err != nil {
				return fmt.Errorf("graph %+v does not build: %v", gc.G, err)
			}
			var pats []label.TargetPattern
			for _, ps := range inv.Pats {
				p, err := label.ParseTargetPattern("p", ps)
				if err != nil {
					return err
				}
				pats = append(pats, p)
			}
			var tags, excl []string
			if inv.Tagf == "want-t1" {
				tags = []string{"t1"}
			} else if inv.Tagf == "exclude-t1" {
				excl = []string{"t1"}
			}
			typ := selection.NonTestOnly
			if inv.Type == "test" {
				typ = selection.TestOnly
			}
			config.Global.AllPlatforms = inv.Allp
			var real string
			func() {
				defer func() {
					if r := recover(); r != nil {
						real = fmt.Sprintf("panic: %v", r)
					}
				}()
				_, _, serr := selection.New(pats, tags, excl, typ).SelectTargetsForBuild(graph)
				if serr != nil {
					real = "error"
					return
				}
				var sel []string
				for _, n := range []string{"n1", "n2", "n3", "r"} {
					if node, ok := nodes[selLabel(gc.G, n)]; ok && node.GetIsSelected() {
						if _, isT := node.(*model.Target); isT {
							sel = append(sel, n)
						}
					}
				}
				sort.Strings(sel)
				real = "ok:" + strings.Join(sel, ",")
			}()
			wantS := "error"
			if want.Kind == "ok" {
				w := append([]string{}, want.Sel...)
				sort.Strings(w)
				wantS = "ok:" + strings.Join(w, ",")
			}
			if real != wantS && len(out) < 300 {
				out = append(out, dis{gc.G, inv, wantS, real})
			}
		}
	}
	if out == nil {
		out = []dis{}
	}
	return writeJSON(args[1], map[string]any{"total": total, "counts": counts, "disagreements": out})
}
