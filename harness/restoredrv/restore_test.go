// Package restoredrv replays the cases enumerated by spec/Restore.tla into the real output handlers
// (binding B3 for C06) and drives DirectoryOutputHandler.Load under CAS read faults inside a
// testing/synctest bubble (spec/DirLoad.tla, C04: a restore must return, never hang).
package restoredrv

import (
	"bytes"
	"context"
	"crypto/sha256"
	"encoding/json"
	"errors"
	"fmt"
	"io"
	"os"
	"path/filepath"
	"sort"
	"strings"
	"sync"
	"testing"
	"testing/synctest"
	"time"

	"grog/internal/caching"
	"grog/internal/caching/backends"
	"grog/internal/config"
	"grog/internal/label"
	"grog/internal/model"
	"grog/internal/output/handlers"
	"grog/internal/proto/gen"
)

type entry struct {
	Kind    string           `json:"kind"`
	Content string           `json:"content"`
	Exec    bool             `json:"exec"`
	Target  string           `json:"target"`
	Sub     map[string]entry `json:"sub"`
}

type dirCase struct {
	Tree  map[string]entry `json:"tree"`
	Prior string           `json:"prior"`
}
type fileCase struct {
	F struct {
		Content string `json:"content"`
		Exec    bool   `json:"exec"`
		Path    string `json:"path"`
	} `json:"f"`
	Prior string `json:"prior"`
}
type cases struct {
	Dirs  []dirCase  `json:"dirs"`
	Files []fileCase `json:"files"`
}

type failure struct {
	Kind     string `json:"kind"`
	Case     string `json:"case"`
	Expected string `json:"expected"`
	Got      string `json:"got"`
}

func materialise(root string, tree map[string]entry) error {
	if err := os.MkdirAll(root, 0755); err != nil {
		return err
	}
	for name, e := range tree {
		p := filepath.Join(root, name)
		switch e.Kind {
		case "file":
			mode := os.FileMode(0644)
			if e.Exec {
				mode = 0755
			}
			if err := os.WriteFile(p, []byte(e.Content), mode); err != nil {
				return err
			}
			if err := os.Chmod(p, mode); err != nil {
				return err
			}
		case "link":
			if err := os.Symlink(e.Target, p); err != nil {
				return err
			}
		case "emptydir":
			if err := os.Mkdir(p, 0755); err != nil {
				return err
			}
		case "dir":
			if err := materialise(p, e.Sub); err != nil {
				return err
			}
		}
	}
	return nil
}

// listing is the observable identity of what sits at path: entry names, types, contents, executable bits, link targets.
func listing(path string) string {
	st, err := os.Lstat(path)
	if err != nil {
		return "<absent>"
	}
	if !st.IsDir() {
		return describe(path, ".", st)
	}
	var lines []string
	_ = filepath.Walk(path, func(p string, info os.FileInfo, err error) error {
		if err != nil {
			lines = append(lines, "ERR "+p)
			return nil
		}
		rel, _ := filepath.Rel(path, p)
		lines = append(lines, describe(p, rel, info))
		return nil
	})
	sort.Strings(lines)
	return strings.Join(lines, "\n")
}

func describe(p, rel string, info os.FileInfo) string {
	switch {
	case info.Mode()&os.ModeSymlink != 0:
		t, _ := os.Readlink(p)
		return fmt.Sprintf("L %s -> %s", rel, t)
	case info.IsDir():
		return fmt.Sprintf("D %s", rel)
	default:
		b, _ := os.ReadFile(p)
		return fmt.Sprintf("F %s exec=%v sha=%x", rel, info.Mode()&0111 != 0, sha256.Sum256(b))
	}
}

func firstMatch(root string, pred func(string, os.FileInfo) bool) string {
	var found []string
	_ = filepath.Walk(root, func(p string, info os.FileInfo, err error) error {
		if err == nil && p != root && pred(p, info) {
			found = append(found, p)
		}
		return nil
	})
	sort.Strings(found)
	if len(found) == 0 {
		return ""
	}
	return found[0]
}

func isRegular(_ string, i os.FileInfo) bool { return i.Mode().IsRegular() }

func perturbDir(out, prior string) error {
	switch prior {
	case "identical":
	case "absent":
		return os.RemoveAll(out)
	case "modify":
		f := firstMatch(out, isRegular)
		fh, err := os.OpenFile(f, os.O_APPEND|os.O_WRONLY, 0)
		if err != nil {
			return err
		}
		defer fh.Close()
		_, err = fh.WriteString("Z")
		return err
	case "truncate":
		return os.Truncate(firstMatch(out, isRegular), 0)
	case "extra-root":
		return os.WriteFile(filepath.Join(out, "stale_extra"), []byte("stale"), 0644)
	case "extra-nested":
		d := firstMatch(out, func(_ string, i os.FileInfo) bool { return i.IsDir() })
		return os.WriteFile(filepath.Join(d, "stale_extra"), []byte("stale"), 0644)
	case "rm-entry":
		return os.RemoveAll(firstMatch(out, func(p string, _ os.FileInfo) bool { return filepath.Dir(p) == out }))
	case "chmod":
		f := firstMatch(out, isRegular)
		st, _ := os.Stat(f)
		return os.Chmod(f, st.Mode()^0111)
	case "relink":
		l := firstMatch(out, func(_ string, i os.FileInfo) bool { return i.Mode()&os.ModeSymlink != 0 })
		if err := os.Remove(l); err != nil {
			return err
		}
		return os.Symlink("elsewhere", l)
	case "file-where-dir":
		if err := os.RemoveAll(out); err != nil {
			return err
		}
		return os.WriteFile(out, []byte("a file where the directory should be"), 0644)
	case "emptied":
		if err := os.RemoveAll(out); err != nil {
			return err
		}
		return os.Mkdir(out, 0755)
	case "readonly-sub":
		return os.Chmod(firstMatch(out, func(_ string, i os.FileInfo) bool { return i.IsDir() }), 0555)
	default:
		return fmt.Errorf("unknown prior %q", prior)
	}
	return nil
}

func withTimeout(f func() error, d time.Duration) (error, bool) {
	ch := make(chan error, 1)
	go func() { ch <- f() }()
	select {
	case err := <-ch:
		return err, false
	case <-time.After(d):
		return nil, true
	}
}

func TestRestoreCases(t *testing.T) {
	in, out := os.Getenv("VERIF_RESTORE_IN"), os.Getenv("VERIF_RESTORE_OUT")
	if in == "" {
		t.Skip("VERIF_RESTORE_IN not set")
	}
	raw, err := os.ReadFile(in)
	if err != nil {
		t.Fatal(err)
	}
	var cs cases
	if err := json.Unmarshal(raw, &cs); err != nil {
		t.Fatal(err)
	}
	scratch := t.TempDir()
	config.Global.Root = filepath.Join(scratch, "root")
	config.Global.WorkspaceRoot = filepath.Join(scratch, "ws")
	ctx := context.Background()
	var fails []failure
	counts := map[string]int{}
	for _, algo := range []string{"xxh3", "sha256"} {
		config.Global.HashAlgorithm = algo
		fs, err := backends.NewFileSystemCache(ctx)
		if err != nil {
			t.Fatal(err)
		}
		cas := caching.NewCas(fs)
		dirH := handlers.NewDirectoryOutputHandler(cas)
		fileH := handlers.NewFileOutputHandler(cas)
		target := model.Target{Label: label.TL("p", "t")}
		pkg := filepath.Join(config.Global.WorkspaceRoot, "p")
		stride := 1
		if algo == "sha256" {
			stride = 7 // the second algorithm runs on a sample
		}
		for i := 0; i < len(cs.Dirs); i += stride {
			c := cs.Dirs[i]
			counts["dir/"+c.Prior]++
			name, _ := json.Marshal(c)
			_ = os.Chmod(filepath.Join(pkg, "out"), 0755)
			_ = filepath.Walk(pkg, func(p string, info os.FileInfo, err error) error {
				if err == nil && info.IsDir() {
					_ = os.Chmod(p, 0755)
				}
				return nil
			})
			if err := os.RemoveAll(pkg); err != nil {
				t.Fatal(err)
			}
			outPath := filepath.Join(pkg, "out")
			if err := materialise(outPath, c.Tree); err != nil {
				t.Fatal(err)
			}
			want := listing(outPath)
			o := model.NewOutput("dir", "out")
			var genOut *gen.Output
			if err, hung := withTimeout(func() error { var e error; genOut, e = dirH.Write(ctx, target, o, nil); return e }, 20*time.Second); err != nil || hung {
				fails = append(fails, failure{"dir-write", string(name), "stored", fmt.Sprintf("err=%v hung=%v", err, hung)})
				continue
			}
			if err := perturbDir(outPath, c.Prior); err != nil {
				t.Fatalf("perturb %s: %v", name, err)
			}
			err, hung := withTimeout(func() error { return dirH.Load(ctx, target, genOut, nil) }, 20*time.Second)
			if hung {
				fails = append(fails, failure{"dir-load-hang", string(name), want, "Load did not return"})
				continue
			}
			if err != nil {
				fails = append(fails, failure{"dir-load-error:" + c.Prior, string(name), want, err.Error()})
				continue
			}
			if got := listing(outPath); got != want {
				fails = append(fails, failure{"dir-restore-inexact:" + c.Prior, string(name), want, got})
			}
		}
		for i := 0; i < len(cs.Files); i += 1 {
			c := cs.Files[i]
			counts["file/"+c.Prior]++
			name, _ := json.Marshal(c)
			if err := os.RemoveAll(pkg); err != nil {
				t.Fatal(err)
			}
			outPath := filepath.Join(pkg, c.F.Path)
			if err := os.MkdirAll(filepath.Dir(outPath), 0755); err != nil {
				t.Fatal(err)
			}
			mode := os.FileMode(0644)
			if c.F.Exec {
				mode = 0755
			}
			if err := os.WriteFile(outPath, []byte(c.F.Content), mode); err != nil {
				t.Fatal(err)
			}
			_ = os.Chmod(outPath, mode)
			want := listing(outPath)
			o := model.NewOutput("file", c.F.Path)
			genOut, err := fileH.Write(ctx, target, o, nil)
			if err != nil {
				fails = append(fails, failure{"file-write", string(name), "stored", err.Error()})
				continue
			}
			switch c.Prior {
			case "identical":
			case "absent":
				_ = os.Remove(outPath)
			case "parent-absent":
				_ = os.RemoveAll(filepath.Dir(outPath))
			case "modify":
				_ = os.WriteFile(outPath, []byte(c.F.Content+"Z"), mode)
			case "truncate":
				_ = os.Truncate(outPath, 0)
			case "chmod":
				_ = os.Chmod(outPath, mode^0111)
			case "modify-chmod": // other content (same length) under the other mode
				_ = os.WriteFile(outPath, []byte(strings.Repeat("Z", len(c.F.Content))), mode)
				_ = os.Chmod(outPath, mode^0111)
			case "longer-chmod": // longer content under the other mode
				_ = os.WriteFile(outPath, []byte(c.F.Content+"ZZZZ"), mode)
				_ = os.Chmod(outPath, mode^0111)
			case "dir-where-file":
				_ = os.Remove(outPath)
				_ = os.MkdirAll(filepath.Join(outPath, "inner"), 0755)
				_ = os.WriteFile(filepath.Join(outPath, "inner", "x"), []byte("x"), 0644)
			case "symlink-to-sibling":
				_ = os.Remove(outPath)
				_ = os.WriteFile(outPath+".sibling", []byte("sibling"), 0644)
				_ = os.Symlink(filepath.Base(outPath)+".sibling", outPath)
			case "dangling-symlink":
				_ = os.Remove(outPath)
				_ = os.Symlink("nowhere", outPath)
			default:
				t.Fatalf("unknown file prior %q", c.Prior)
			}
			err, hung := withTimeout(func() error { return fileH.Load(ctx, target, genOut, nil) }, 20*time.Second)
			if hung || err != nil {
				fails = append(fails, failure{"file-load-error:" + c.Prior, string(name), want, fmt.Sprintf("err=%v hung=%v", err, hung)})
				continue
			}
			if got := listing(outPath); got != want {
				fails = append(fails, failure{"file-restore-inexact:" + c.Prior, string(name), want, got})
			}
			if c.Prior == "symlink-to-sibling" {
				if b, _ := os.ReadFile(outPath + ".sibling"); string(b) != "sibling" {
					fails = append(fails, failure{"file-restore-writes-through-symlink", string(name), "sibling file untouched", string(b)})
				}
			}
		}
	}
	if fails == nil {
		fails = []failure{}
	}
	b, _ := json.Marshal(map[string]any{"counts": counts, "failures": fails, "dirs": len(cs.Dirs), "files": len(cs.Files)})
	if err := os.WriteFile(out, b, 0644); err != nil {
		t.Fatal(err)
	}
}

// ---------------------------------------------------------------- read faults (DirLoad.tla)

type memBackend struct {
	mu    sync.Mutex
	data  map[string][]byte
	fault map[string]bool // cas digests whose Get fails
}

func (m *memBackend) TypeName() string { return "mem" }
func (m *memBackend) Get(_ context.Context, path, key string) (io.ReadCloser, error) {
	m.mu.Lock()
	defer m.mu.Unlock()
	if path == "cas" && m.fault[key] {
		return nil, errors.New("injected read fault")
	}
	b, ok := m.data[path+"/"+key]
	if !ok {
		return nil, os.ErrNotExist
	}
	return io.NopCloser(bytes.NewReader(b)), nil
}
func (m *memBackend) Set(_ context.Context, path, key string, content io.Reader) error {
	b, err := io.ReadAll(content)
	if err != nil {
		return err
	}
	m.mu.Lock()
	defer m.mu.Unlock()
	m.data[path+"/"+key] = b
	return nil
}
func (m *memBackend) Delete(_ context.Context, path, key string) error {
	m.mu.Lock()
	defer m.mu.Unlock()
	delete(m.data, path+"/"+key)
	return nil
}
func (m *memBackend) Exists(_ context.Context, path, key string) (bool, error) {
	m.mu.Lock()
	defer m.mu.Unlock()
	_, ok := m.data[path+"/"+key]
	return ok, nil
}

type faultResult struct {
	Shape   string `json:"shape"`
	Files   int    `json:"files"`
	Fault   []int  `json:"fault"`
	Outcome string `json:"outcome"` // ok | error | hang | inexact
	Detail  string `json:"detail"`
}

func runFaultCase(t *testing.T, scratch string, shape string, nfiles int, faultSet []int) (res faultResult) {
	res = faultResult{Shape: shape, Files: nfiles, Fault: faultSet}
	config.Global.WorkspaceRoot = filepath.Join(scratch, "ws")
	pkg := filepath.Join(config.Global.WorkspaceRoot, "p")
	_ = os.RemoveAll(pkg)
	outPath := filepath.Join(pkg, "out")
	tree := map[string]entry{}
	var contents []string
	for i := 1; i <= nfiles; i++ {
		c := fmt.Sprintf("content-%d", i)
		contents = append(contents, c)
		e := entry{Kind: "file", Content: c}
		switch {
		case shape == "flat":
			tree[fmt.Sprintf("f%d", i)] = e
		case shape == "nested":
			sub := tree["d"]
			if sub.Sub == nil {
				sub = entry{Kind: "dir", Sub: map[string]entry{}}
			}
			sub.Sub[fmt.Sprintf("f%d", i)] = e
			tree["d"] = sub
		default: // mixed: first file at the root, the rest in a sub-directory
			if i == 1 {
				tree["f1"] = e
			} else {
				sub := tree["d"]
				if sub.Sub == nil {
					sub = entry{Kind: "dir", Sub: map[string]entry{}}
				}
				sub.Sub[fmt.Sprintf("f%d", i)] = e
				tree["d"] = sub
			}
		}
	}
	if err := materialise(outPath, tree); err != nil {
		t.Fatal(err)
	}
	want := listing(outPath)
	be := &memBackend{data: map[string][]byte{}, fault: map[string]bool{}}
	cas := caching.NewCas(be)
	h := handlers.NewDirectoryOutputHandler(cas)
	ctx := context.Background()
	target := model.Target{Label: label.TL("p", "t")}
	genOut, err := h.Write(ctx, target, model.NewOutput("dir", "out"), nil)
	if err != nil {
		t.Fatal(err)
	}
	for _, f := range faultSet {
		// the digest of file f under the configured algorithm is the CAS key of its content
		for k, v := range be.data {
			if strings.HasPrefix(k, "cas/") && string(v) == contents[f-1] {
				be.fault[strings.TrimPrefix(k, "cas/")] = true
			}
		}
	}
	_ = os.RemoveAll(outPath)
	done := false
	var loadErr error
	func() {
		defer func() {
			if r := recover(); r != nil {
				msg := fmt.Sprint(r)
				if !done {
					res.Outcome, res.Detail = "hang", msg
				}
			}
		}()
		synctest.Test(t, func(t *testing.T) {
			go func() {
				loadErr = h.Load(ctx, target, genOut, nil)
				done = true
			}()
			time.Sleep(30 * time.Second) // fake time: returns as soon as everything else is blocked or finished
			synctest.Wait()
		})
	}()
	if res.Outcome == "hang" {
		return res
	}
	if !done {
		res.Outcome = "hang"
		return res
	}
	if loadErr != nil {
		res.Outcome, res.Detail = "error", loadErr.Error()
		return res
	}
	if got := listing(outPath); got != want {
		res.Outcome, res.Detail = "inexact", got
		return res
	}
	res.Outcome = "ok"
	return res
}

func TestDirLoadFaults(t *testing.T) {
	out := os.Getenv("VERIF_FAULT_OUT")
	if out == "" {
		t.Skip("VERIF_FAULT_OUT not set")
	}
	scratch := t.TempDir()
	config.Global.Root = filepath.Join(scratch, "root")
	maxFiles := 3
	if os.Getenv("VERIF_TIER") == "thorough" {
		maxFiles = 5
	}
	var results []faultResult
	for _, algo := range []string{"xxh3", "sha256"} {
		config.Global.HashAlgorithm = algo
		for _, shape := range []string{"flat", "nested", "mixed"} {
			for n := 1; n <= maxFiles; n++ {
				for mask := 0; mask < 1<<n; mask++ {
					var fs []int
					for i := 0; i < n; i++ {
						if mask&(1<<i) != 0 {
							fs = append(fs, i+1)
						}
					}
					if fs == nil {
						fs = []int{}
					}
					results = append(results, runFaultCase(t, scratch, shape, n, fs))
				}
			}
		}
	}
	b, _ := json.Marshal(results)
	if err := os.WriteFile(out, b, 0644); err != nil {
		t.Fatal(err)
	}
}
