// Package walkdrv drives the real dag.Walker + worker.TaskWorkerPool (wired as execution.Execute wires
// them) under controlled goroutine schedules inside a testing/synctest bubble, and records one event per
// action of spec/Walker.tla for trace validation (binding B1 for C03/C04/C05/C18).
//
// Every hook of the repo (verifhook.Emit / Gate) and every callback step of this driver is a scheduling
// gate: a goroutine arriving at a gate parks until the seeded controller releases it. Between releases
// synctest.Wait() guarantees quiescence, so a schedule is a sequence of gate releases and a hang is a
// state with no parked gate, no timer left and Walk not returned -- a deterministic verdict.
package walkdrv

import (
	"context"
	"encoding/json"
	"errors"
	"fmt"
	"math/rand"
	"os"
	"runtime"
	"sort"
	"strconv"
	"strings"
	"sync"
	"testing"
	"testing/synctest"
	"time"

	tea "github.com/charmbracelet/bubbletea"
	"go.uber.org/zap"
	"go.uber.org/zap/zapcore"

	"grog/internal/console"
	"grog/internal/dag"
	"grog/internal/label"
	"grog/internal/model"
	"grog/internal/verifhook"
	"grog/internal/worker"
)

type Scenario struct {
	ID         int     `json:"id"`
	N          int     `json:"n"`
	Deps       [][]int `json:"deps"` // Deps[i] = dependencies of node i+1 (1-based ids)
	Selected   []int   `json:"selected"`
	FailFast   bool    `json:"failfast"`
	NumWorkers int     `json:"workers"`
	Fail       []int   `json:"canfail"`
	ExtCancel  int     `json:"extcancel"` // controller step at which the parent context is cancelled, -1 never
	Policy     string  `json:"policy"`
	Seed       int64   `json:"seed"`
	Script     []string `json:"script,omitempty"` // optional: replay this exact release order
	Aliases    []int    `json:"aliases,omitempty"` // nodes with exactly one dependency that are alias nodes (same walk, another node type)
}

type Event struct {
	A string `json:"a"`
	N int    `json:"n"`
	W int    `json:"w"`
	R string `json:"r"`
	F bool   `json:"f"`
	G bool   `json:"g"`
}

type Result struct {
	ID        int      `json:"id"`
	Cfg       Scenario `json:"cfg"`
	Ev        []Event  `json:"ev"`
	Outcome   string   `json:"outcome"` // returned | hang | panic
	RetKind   string   `json:"retkind"`
	RetSize   int      `json:"retsize"`
	FinalSize int      `json:"finalsize"`
	Detail    string   `json:"detail"`
	Schedule  []string `json:"schedule"`
}

type gateReq struct {
	name    string
	n       int
	release chan struct{}
}

func nodeID(l string) int {
	i := strings.LastIndex(l, ":n")
	if i < 0 {
		return 0
	}
	v, _ := strconv.Atoi(l[i+2:])
	return v
}

func kvGet(kv []any, key string) any {
	for i := 0; i+1 < len(kv); i += 2 {
		if k, ok := kv[i].(string); ok && k == key {
			return kv[i+1]
		}
	}
	return nil
}

func runScenario(t *testing.T, sc Scenario) (res Result) {
	res.ID, res.Cfg = sc.ID, sc
	rng := rand.New(rand.NewSource(sc.Seed))
	free := sc.Policy == "free"

	targets := make([]model.BuildNode, sc.N+1)
	sel := map[int]bool{}
	for _, s := range sc.Selected {
		sel[s] = true
	}
	isAlias := map[int]bool{}
	for _, a := range sc.Aliases {
		isAlias[a] = true
	}
	isRoot := map[int]bool{}
	for i := 1; i <= sc.N; i++ {
		lbl := label.TL("", fmt.Sprintf("n%d", i))
		isRoot[i] = len(sc.Deps[i-1]) == 0
		if isAlias[i] && len(sc.Deps[i-1]) == 1 {
			targets[i] = &model.Alias{Label: lbl, Actual: targets[sc.Deps[i-1][0]].GetLabel(), IsSelected: sel[i]}
			continue
		}
		tg := &model.Target{Label: lbl, IsSelected: sel[i]}
		for _, d := range sc.Deps[i-1] {
			tg.Dependencies = append(tg.Dependencies, targets[d].GetLabel())
		}
		targets[i] = tg
	}
	nodes := make([]model.BuildNode, 0, sc.N)
	for i := 1; i <= sc.N; i++ {
		nodes = append(nodes, targets[i])
	}
	g := dag.NewDirectedGraphFromTargets(nodes...)
	for i := 1; i <= sc.N; i++ {
		for _, d := range sc.Deps[i-1] {
			_ = g.AddEdge(targets[d], targets[i])
		}
	}
	fails := map[int]bool{}
	for _, f := range sc.Fail {
		fails[f] = true
	}

	var mu sync.Mutex // protects events, pending, slotOf
	var events []Event
	var pending []gateReq
	slotOf := map[int64]int{}
	emit := func(e Event) { events = append(events, e) } // caller holds mu
	draining := false

	gate := func(name string, n int) {
		if free {
			return
		}
		mu.Lock()
		if draining && false {
			mu.Unlock()
			return
		}
		r := gateReq{name, n, make(chan struct{})}
		pending = append(pending, r)
		mu.Unlock()
		<-r.release
	}

	verifhook.Sink = func(kind string, kv []any) {
		mu.Lock()
		defer mu.Unlock()
		n := 0
		if s, ok := kvGet(kv, "n").(string); ok {
			n = nodeID(s)
		}
		switch kind {
		case "walk.register":
			emit(Event{A: "WalkRegister", N: n})
		case "walk.registered":
			emit(Event{A: "WalkRegistered"})
		case "start.lookup":
			found, _ := kvGet(kv, "found").(bool)
			if isRoot[n] {
				emit(Event{A: "WalkStartRoot", N: n, F: found})
			} else {
				emit(Event{A: "StartLookup", N: n, F: found})
			}
		case "cancel.lookup":
			found, _ := kvGet(kv, "found").(bool)
			emit(Event{A: "CancelLookup", N: n, F: found})
		case "node.took":
			what, _ := kvGet(kv, "what").(string)
			emit(Event{A: "NodeTook", N: n, R: what})
		case "node.complete":
			ok, _ := kvGet(kv, "ok").(bool)
			ff, _ := kvGet(kv, "ff").(bool)
			emit(Event{A: "NodeComplete", N: n, F: ok, G: ff})
		case "walk.ffcancel":
			emit(Event{A: "FFCancel"})
		case "node.canceled":
			emit(Event{A: "NodeCanceled", N: n})
		case "walk.return":
			k, _ := kvGet(kv, "kind").(string)
			emit(Event{A: "WalkReturn", R: k})
			res.RetKind = k
		case "walk.snapshot":
			sz, _ := kvGet(kv, "size").(int)
			emit(Event{A: "Snapshot", W: sz})
		case "slot.acquire":
			w, _ := kvGet(kv, "w").(int)
			slotOf[verifhook.Goid()] = w
		case "pool.shutdown":
			emit(Event{A: "PoolShutdown"})
		}
	}
	verifhook.GateFn = func(name string, kv []any) {
		n := 0
		if s, ok := kvGet(kv, "n").(string); ok {
			n = nodeID(s)
		}
		gate(name, n)
	}
	defer func() { verifhook.Sink = nil; verifhook.GateFn = nil }()

	returned := false
	returnedAtEnd := false
	var retErr error
	var cm dag.CompletionMap

	body := func(t *testing.T) {
		parent, cancelParent := context.WithCancel(context.Background())
		defer cancelParent()
		logger := console.NewFromSugared(zap.NewNop().Sugar(), zapcore.ErrorLevel)
		pool := worker.NewTaskWorkerPool[dag.CacheResult](logger, sc.NumWorkers, func(_ tea.Msg) {}, len(sc.Selected))
		pool.StartWorkers(parent)

		callback := func(ctx context.Context, node model.BuildNode) (dag.CacheResult, error) {
			n := nodeID(node.GetLabel().String())
			gate("cb.enter", n)
			cr, err := pool.Run(func(update worker.StatusFunc) (dag.CacheResult, error) {
				gid := verifhook.Goid()
				mu.Lock()
				ctxc := ctx.Err() != nil
				emit(Event{A: "TaskStart", N: n, W: slotOf[gid], F: ctxc})
				mu.Unlock()
				var terr error
				if ctxc {
					terr = context.Canceled // exec.Cmd.Start refuses an already cancelled context
				} else {
					gate("task.run", n)
					if ctx.Err() != nil {
						terr = context.Canceled // the running command is killed
					} else if fails[n] {
						terr = fmt.Errorf("target n%d failed", n)
					}
				}
				mu.Lock()
				r := "ok"
				if terr != nil {
					r = "fail"
					if errors.Is(terr, context.Canceled) {
						r = "canceled"
					}
				}
				emit(Event{A: "TaskEnd", N: n, R: r})
				mu.Unlock()
				if terr != nil {
					return dag.CacheMiss, terr
				}
				return dag.CacheHit, nil
			})
			gate("cb.return", n)
			mu.Lock()
			r := "ok"
			if err != nil {
				switch {
				case errors.Is(err, context.Canceled):
					r = "canceled"
				case strings.Contains(err.Error(), "closed"):
					r = "poolclosed"
				default:
					r = "fail"
				}
			}
			emit(Event{A: "CbReturn", N: n, R: r})
			mu.Unlock()
			return cr, err
		}

		w := dag.NewWalker(g, callback, sc.FailFast)
		go func() {
			m, err := w.Walk(parent)
			mu.Lock()
			cm, retErr = m, err
			returned = true
			res.RetSize = len(m)
			emit(Event{A: "WalkReturned", W: len(m)})
			mu.Unlock()
			pool.Shutdown() // Execute's deferred Shutdown
		}()

		idle := 0
		scriptPos := 0
		for step := 0; step < 5000; step++ {
			synctest.Wait()
			if step == sc.ExtCancel {
				mu.Lock() // the event is ordered before anything that can observe the cancellation
				emit(Event{A: "ExtCancel"})
				cancelParent()
				mu.Unlock()
				res.Schedule = append(res.Schedule, "ext.cancel")
				continue
			}
			mu.Lock()
			if len(pending) == 0 {
				mu.Unlock()
				if returned && idle >= 1 {
					break
				}
				if idle >= 3 {
					break
				}
				idle++
				time.Sleep(2 * time.Second) // lets fake time advance: timers (enqueue backstop) fire
				continue
			}
			idle = 0
			idx := -1
			if scriptPos < len(sc.Script) {
				want := sc.Script[scriptPos]
				for i, p := range pending {
					if fmt.Sprintf("%s:%d", p.name, p.n) == want {
						idx = i
						break
					}
				}
				scriptPos++
			}
			if idx < 0 {
				idx = choose(rng, sc.Policy, pending)
			}
			r := pending[idx]
			pending = append(pending[:idx], pending[idx+1:]...)
			mu.Unlock()
			res.Schedule = append(res.Schedule, fmt.Sprintf("%s:%d", r.name, r.n))
			close(r.release)
		}
		synctest.Wait()
		mu.Lock()
		draining = true
		// release whatever is still parked so that the bubble can end; events after this point are not part of the trace
		res.Ev = append([]Event{}, events...)
		res.FinalSize = len(cm)
		returnedAtEnd = returned
		for _, p := range pending {
			close(p.release)
		}
		pending = nil
		free = true
		mu.Unlock()
		cancelParent()
	}

	func() {
		defer func() {
			if r := recover(); r != nil {
				msg := fmt.Sprint(r)
				if strings.Contains(msg, "deadlock") || strings.Contains(msg, "blocked goroutines remain") {
					res.Detail = "bubble ended with blocked goroutines: " + msg
					return
				}
				res.Outcome = "panic"
				res.Detail = msg
			}
		}()
		synctest.Test(t, body)
	}()
	if res.Outcome == "" {
		if returnedAtEnd {
			res.Outcome = "returned"
			_ = retErr
		} else {
			res.Outcome = "hang"
		}
	}
	if res.Ev == nil {
		res.Ev = append([]Event{}, events...)
	}
	return res
}

func choose(rng *rand.Rand, policy string, pending []gateReq) int {
	pick := func(pred func(gateReq) bool) int {
		var idx []int
		for i, p := range pending {
			if pred(p) {
				idx = append(idx, i)
			}
		}
		if len(idx) == 0 {
			return rng.Intn(len(pending))
		}
		return idx[rng.Intn(len(idx))]
	}
	switch policy {
	case "starve_walk":
		return pick(func(p gateReq) bool { return p.name != "walk.loop" && p.name != "walk.spawn" })
	case "walk_first":
		return pick(func(p gateReq) bool { return p.name == "walk.loop" || p.name == "walk.spawn" })
	case "prefer_complete":
		if rng.Intn(4) > 0 {
			return pick(func(p gateReq) bool { return p.name == "cb.return" || p.name == "task.run" })
		}
	case "prefer_cancel":
		if rng.Intn(4) > 0 {
			return pick(func(p gateReq) bool { return p.name == "cancel.async" })
		}
	case "starve_cancel":
		return pick(func(p gateReq) bool { return p.name != "cancel.async" })
	case "saturate":
		// let every ready callback reach the pool before any task finishes: workers busy, queue full, the rest blocked in enqueue
		return pick(func(p gateReq) bool { return p.name != "task.run" && p.name != "cb.return" })
	}
	return rng.Intn(len(pending))
}

// ---------------------------------------------------------------- scenario generation

func closure(deps [][]int, seed []int) []int {
	in := map[int]bool{}
	var visit func(int)
	visit = func(n int) {
		if in[n] {
			return
		}
		in[n] = true
		for _, d := range deps[n-1] {
			visit(d)
		}
	}
	for _, s := range seed {
		visit(s)
	}
	var out []int
	for n := range in {
		out = append(out, n)
	}
	sort.Ints(out)
	return out
}

func genScenarios(seed int64, count, maxN int) []Scenario {
	rng := rand.New(rand.NewSource(seed))
	policies := []string{"random", "starve_walk", "walk_first", "prefer_complete", "prefer_cancel", "starve_cancel", "random", "starve_walk", "saturate"}
	var out []Scenario
	for i := 0; i < count; i++ {
		n := 1 + rng.Intn(maxN)
		if i%5 == 0 && maxN >= 4 {
			n = 2 + rng.Intn(3) // keep many small graphs
		}
		deps := make([][]int, n)
		density := rng.Float64()
		for k := 2; k <= n; k++ {
			for d := 1; d < k; d++ {
				if rng.Float64() < density*0.6 {
					deps[k-1] = append(deps[k-1], d)
				}
			}
		}
		var selSeed []int
		if rng.Intn(3) == 0 {
			for k := 1; k <= n; k++ {
				if rng.Intn(2) == 0 {
					selSeed = append(selSeed, k)
				}
			}
		}
		if len(selSeed) == 0 {
			for k := 1; k <= n; k++ {
				selSeed = append(selSeed, k)
			}
		}
		sel := closure(deps, selSeed)
		var fail []int
		if rng.Intn(2) == 0 {
			for _, s := range sel {
				if rng.Intn(4) == 0 {
					fail = append(fail, s)
				}
			}
		}
		ext := -1
		if rng.Intn(5) == 0 {
			ext = rng.Intn(6 * n)
		}
		for k := range deps {
			if deps[k] == nil {
				deps[k] = []int{}
			}
		}
		if fail == nil {
			fail = []int{}
		}
		sc := Scenario{ID: i + 1, N: n, Deps: deps, Selected: sel, FailFast: rng.Intn(2) == 0,
			NumWorkers: 1 + rng.Intn(3), Fail: fail, ExtCancel: ext, Policy: policies[rng.Intn(len(policies))], Seed: rng.Int63()}
		if i%3 == 1 {
			// a third of the scenarios: every node with exactly one dependency is an alias node
			for k := 1; k <= n; k++ {
				if len(deps[k-1]) == 1 {
					sc.Aliases = append(sc.Aliases, k)
				}
			}
		}
		if i%9 == 4 && maxN >= 4 {
			// saturated pool at the moment the walk ends: a wide graph, few workers, every callback parked in the pool, then a
			// fail-fast failure or an external cancellation (Execute's deferred Shutdown closes the queue under blocked senders)
			w := 4 + rng.Intn(maxN-3)
			sc.N, sc.Deps, sc.Selected, sc.NumWorkers, sc.Policy = w, make([][]int, w), nil, 1+rng.Intn(2), "saturate"
			for k := 1; k <= w; k++ {
				sc.Deps[k-1] = []int{}
				sc.Selected = append(sc.Selected, k)
			}
			if rng.Intn(2) == 0 {
				sc.FailFast, sc.Fail, sc.ExtCancel = true, []int{1 + rng.Intn(w)}, -1
			} else {
				sc.Fail, sc.ExtCancel = []int{}, 4*w+rng.Intn(2*w)
			}
		}
		out = append(out, sc)
	}
	return out
}

// allDags enumerates every DAG over n nodes (edges only from lower to higher ids), all nodes selected, with one failing
// node chosen by the seed (keep-going twice as often as fail-fast): graph shapes are covered systematically, schedules sampled.
func allDags(seed int64, n int) []Scenario {
	rng := rand.New(rand.NewSource(seed))
	policies := []string{"random", "starve_walk", "walk_first", "prefer_complete", "prefer_cancel", "starve_cancel", "saturate"}
	type edge struct{ from, to int }
	var edges []edge
	for to := 2; to <= n; to++ {
		for from := 1; from < to; from++ {
			edges = append(edges, edge{from, to})
		}
	}
	var out []Scenario
	for mask := 0; mask < 1<<len(edges); mask++ {
		deps := make([][]int, n)
		for k := range deps {
			deps[k] = []int{}
		}
		for b, e := range edges {
			if mask&(1<<b) != 0 {
				deps[e.to-1] = append(deps[e.to-1], e.from)
			}
		}
		sel := make([]int, n)
		for k := range sel {
			sel[k] = k + 1
		}
		fail := []int{1 + rng.Intn(n)}
		if rng.Intn(6) == 0 {
			fail = []int{}
		}
		out = append(out, Scenario{ID: mask + 1, N: n, Deps: deps, Selected: sel, FailFast: rng.Intn(3) == 0, NumWorkers: 1 + rng.Intn(3),
			Fail: fail, ExtCancel: -1, Policy: policies[rng.Intn(len(policies))], Seed: rng.Int63()})
	}
	return out
}

// TestDrive is the entry point used by bin/check: VERIF_WALK_OUT names the result file;
// VERIF_WALK_IN (optional) names a JSON list of scenarios to run instead of generated ones.
func TestDrive(t *testing.T) {
	out := os.Getenv("VERIF_WALK_OUT")
	if out == "" {
		t.Skip("VERIF_WALK_OUT not set")
	}
	var scs []Scenario
	if in := os.Getenv("VERIF_WALK_IN"); in != "" {
		b, err := os.ReadFile(in)
		if err != nil {
			t.Fatal(err)
		}
		if err := json.Unmarshal(b, &scs); err != nil {
			t.Fatal(err)
		}
	} else {
		seed, _ := strconv.ParseInt(os.Getenv("VERIF_SEED"), 10, 64)
		count, _ := strconv.Atoi(os.Getenv("VERIF_WALK_COUNT"))
		maxN, _ := strconv.Atoi(os.Getenv("VERIF_WALK_MAXN"))
		if count == 0 {
			count = 100
		}
		if maxN == 0 {
			maxN = 6
		}
		if n, _ := strconv.Atoi(os.Getenv("VERIF_WALK_ALLDAGS")); n > 0 {
			scs = allDags(seed, n)
		} else {
			scs = genScenarios(seed, count, maxN)
		}
	}
	if p := os.Getenv("VERIF_WALK_POLICY"); p != "" {
		for i := range scs {
			scs[i].Policy = p
		}
	}
	results := make([]Result, 0, len(scs))
	writeOut := func() {
		b, err := json.Marshal(results)
		if err == nil {
			_ = os.WriteFile(out, b, 0644)
		}
	}
	for _, sc := range scs {
		// watchdog in real time, outside the bubble: goroutines blocked on a mutex are not "durably blocked" for synctest, so a
		// lock that is never released makes synctest.Wait wait for ever. After 90 s of wall time for one scenario the goroutine
		// stacks are recorded, the results so far are written and the process exits.
		sc := sc
		watchdog := time.AfterFunc(90*time.Second, func() {
			buf := make([]byte, 1<<20)
			buf = buf[:runtime.Stack(buf, true)]
			var blocked []string
			for _, g := range strings.Split(string(buf), "\n\n") {
				if strings.Contains(g, "/internal/") && (strings.Contains(g, "sync.(*Mutex).Lock") || strings.Contains(g, "sync.(*RWMutex)") || strings.Contains(g, "semacquire") || strings.Contains(g, "sync.(*WaitGroup).Wait") || strings.Contains(g, "sync.(*Cond).Wait")) {
					lines := strings.Split(g, "\n")
					if len(lines) > 14 {
						lines = lines[:14]
					}
					blocked = append(blocked, strings.Join(lines, "\n"))
				}
			}
			if len(blocked) > 6 {
				blocked = blocked[:6]
			}
			results = append(results, Result{ID: sc.ID, Cfg: sc, Outcome: "stuck", Detail: strings.Join(blocked, "\n--\n")})
			writeOut()
			os.Exit(3)
		})
		// a subtest per scenario: a race report makes synctest.Test end its caller (FailNow); only this scenario's test ends
		var r *Result
		t.Run(fmt.Sprint("s", sc.ID), func(t *testing.T) {
			defer func() {
				if r == nil {
					r = &Result{ID: sc.ID, Cfg: sc, Outcome: "aborted", Detail: "the test framework ended the scenario (race report)"}
				}
			}()
			x := runScenario(t, sc)
			r = &x
		})
		watchdog.Stop()
		results = append(results, *r)
	}
	b, err := json.Marshal(results)
	if err != nil {
		t.Fatal(err)
	}
	if err := os.WriteFile(out, b, 0644); err != nil {
		t.Fatal(err)
	}
}
