SPECIFICATION Spec
CONSTANTS
  Nodes = {a, b, c, d}
  a = a b = b c = c d = d
  Deps <- DepsDiamond
  Selected = {a, b, c, d}
  FailFast = FALSE
  NumWorkers = 2
  CanFail = {b}
  SplitRegistration = FALSE
  AllowExtCancel = FALSE
INVARIANTS DepsFirst WorkerBound Resolved KeepGoingBuildsRest
