---- MODULE WalkerAll ----
EXTENDS Naturals, FiniteSets, TLC

CONSTANTS N, MaxWorkers, SplitRegistration, AllowExtCancel
Nodes == 1..N
VARIABLES Deps, Selected, FailFast, NumWorkers, CanFail
cfg == <<Deps, Selected, FailFast, NumWorkers, CanFail>>

Dependants(n) == {m \in Nodes : n \in Deps[m]}
RECURSIVE Desc(_)
Desc(n) == LET ds == Dependants(n) IN ds \cup UNION {Desc(d) : d \in ds}
RECURSIVE Anc(_)
Anc(n) == Deps[n] \cup UNION {Anc(d) : d \in Deps[n]}

VARIABLES walk, registered, pc, ready, cancelled, completion, result,
          ffTriggered, ctxCancelled, extCancelled, poolClosed, pendingCancel, lost, raced

vars == <<Deps, Selected, FailFast, NumWorkers, CanFail, walk, registered, pc, ready, cancelled, completion, result,
          ffTriggered, ctxCancelled, extCancelled, poolClosed, pendingCancel, lost, raced>>

Closed(S, D) == \A n \in S : D[n] \subseteq S
Init ==
  /\ Deps \in {D \in [Nodes -> SUBSET Nodes] : \A n \in Nodes : \A m \in D[n] : m < n}
  /\ Selected \in {S \in SUBSET Nodes : S # {} /\ Closed(S, Deps)}
  /\ FailFast \in BOOLEAN
  /\ NumWorkers \in 1..MaxWorkers
  /\ CanFail \in SUBSET Selected
  /\ walk = "registering"
  /\ registered = {}
  /\ pc = [n \in Nodes |-> "none"]
  /\ ready = [n \in Nodes |-> 0]
  /\ cancelled = [n \in Nodes |-> FALSE]
  /\ completion = [n \in Nodes |-> "none"]
  /\ result = [n \in Nodes |-> "none"]
  /\ ffTriggered = FALSE /\ ctxCancelled = FALSE /\ extCancelled = FALSE /\ poolClosed = FALSE
  /\ pendingCancel = {}
  /\ lost = {} /\ raced = FALSE

\* as-is: one loop iteration = map write + go nodeRoutine + (start if no deps)
WalkRegister(n) ==
  /\ walk = "registering" /\ n \in Selected \ registered
  /\ registered' = registered \cup {n}
  /\ IF SplitRegistration
       THEN UNCHANGED <<pc, ready>>
       ELSE /\ pc' = [pc EXCEPT ![n] = "parked"]
            /\ ready' = IF Deps[n] = {} THEN [ready EXCEPT ![n] = @ + 1] ELSE ready
  /\ UNCHANGED <<walk, cancelled, completion, result, ffTriggered, ctxCancelled, extCancelled, poolClosed, pendingCancel, lost, raced>>

WalkRegistered ==
  /\ walk = "registering" /\ registered = Selected
  /\ walk' = IF SplitRegistration THEN "spawning" ELSE "waiting"
  /\ UNCHANGED <<registered, pc, ready, cancelled, completion, result, ffTriggered, ctxCancelled, extCancelled, poolClosed, pendingCancel, lost, raced>>

WalkSpawn(n) ==
  /\ walk = "spawning" /\ n \in Selected /\ pc[n] = "none"
  /\ pc' = [pc EXCEPT ![n] = "parked"]
  /\ ready' = IF Deps[n] = {} THEN [ready EXCEPT ![n] = @ + 1] ELSE ready
  /\ UNCHANGED <<walk, registered, cancelled, completion, result, ffTriggered, ctxCancelled, extCancelled, poolClosed, pendingCancel, lost, raced>>

WalkSpawned ==
  /\ walk = "spawning" /\ \A n \in Selected : pc[n] # "none"
  /\ walk' = "waiting"
  /\ UNCHANGED <<registered, pc, ready, cancelled, completion, result, ffTriggered, ctxCancelled, extCancelled, poolClosed, pendingCancel, lost, raced>>

NodeTakeReady(n) ==
  /\ pc[n] = "parked" /\ ready[n] > 0
  /\ ready' = [ready EXCEPT ![n] = @ - 1]
  /\ pc' = [pc EXCEPT ![n] = "called"]
  /\ UNCHANGED <<walk, registered, cancelled, completion, result, ffTriggered, ctxCancelled, extCancelled, poolClosed, pendingCancel, lost, raced>>

NodeTakeCancel(n) ==
  /\ pc[n] = "parked" /\ cancelled[n]
  /\ pc' = [pc EXCEPT ![n] = "finished"]
  /\ UNCHANGED <<walk, registered, ready, cancelled, completion, result, ffTriggered, ctxCancelled, extCancelled, poolClosed, pendingCancel, lost, raced>>

Running == {n \in Nodes : pc[n] = "running"}

PoolStart(n) ==
  /\ pc[n] = "called" /\ ~poolClosed /\ Cardinality(Running) < NumWorkers
  /\ pc' = [pc EXCEPT ![n] = "running"]
  /\ UNCHANGED <<walk, registered, ready, cancelled, completion, result, ffTriggered, ctxCancelled, extCancelled, poolClosed, pendingCancel, lost, raced>>

PoolReject(n) ==
  /\ pc[n] = "called" /\ poolClosed
  /\ pc' = [pc EXCEPT ![n] = "returned"]
  /\ result' = [result EXCEPT ![n] = "fail"]
  /\ UNCHANGED <<walk, registered, ready, cancelled, completion, ffTriggered, ctxCancelled, extCancelled, poolClosed, pendingCancel, lost, raced>>

TaskFinish(n, r) ==
  /\ pc[n] = "running"
  /\ \/ r = "ok"
     \/ r = "fail" /\ n \in CanFail
     \/ r = "canceled" /\ ctxCancelled
  /\ pc' = [pc EXCEPT ![n] = "returned"]
  /\ result' = [result EXCEPT ![n] = r]
  /\ UNCHANGED <<walk, registered, ready, cancelled, completion, ffTriggered, ctxCancelled, extCancelled, poolClosed, pendingCancel, lost, raced>>

ReadyDependants(n, comp) == {d \in Dependants(n) : \A p \in Deps[d] : comp[p] = "ok"}

NodeOnComplete(n) ==
  /\ pc[n] = "returned" /\ result[n] \in {"ok", "fail"}
  /\ pc' = [pc EXCEPT ![n] = "finished"]
  /\ LET comp == [completion EXCEPT ![n] = result[n]] IN
     /\ completion' = comp
     /\ IF ffTriggered
          THEN UNCHANGED <<ready, cancelled, ffTriggered, ctxCancelled, pendingCancel, lost, raced>>
          ELSE IF result[n] = "fail"
            THEN IF FailFast
                   THEN /\ ffTriggered' = TRUE /\ ctxCancelled' = TRUE
                        /\ pendingCancel' = pendingCancel \cup Nodes
                        /\ UNCHANGED <<ready, cancelled, lost, raced>>
                   ELSE /\ cancelled' = [d \in Nodes |-> cancelled[d] \/ (d \in Desc(n) /\ d \in registered)]
                        /\ lost' = lost \cup {<<"cancel", d>> : d \in (Desc(n) \cap Selected) \ registered}
                        /\ raced' = (raced \/ (walk = "registering" /\ Desc(n) # {}))
                        /\ UNCHANGED <<ready, ffTriggered, ctxCancelled, pendingCancel>>
            ELSE /\ ready' = [d \in Nodes |-> IF d \in ReadyDependants(n, comp) /\ d \in registered THEN ready[d] + 1 ELSE ready[d]]
                 /\ lost' = lost \cup {<<"start", d>> : d \in (ReadyDependants(n, comp) \cap Selected) \ registered}
                 /\ raced' = (raced \/ (walk = "registering" /\ ReadyDependants(n, comp) # {}))
                 /\ UNCHANGED <<cancelled, ffTriggered, ctxCancelled, pendingCancel>>
  /\ UNCHANGED <<walk, registered, result, extCancelled, poolClosed>>

NodeCanceledReturn(n) ==
  /\ pc[n] = "returned" /\ result[n] = "canceled"
  /\ pc' = [pc EXCEPT ![n] = "finished"]
  /\ UNCHANGED <<walk, registered, ready, cancelled, completion, result, ffTriggered, ctxCancelled, extCancelled, poolClosed, pendingCancel, lost, raced>>

AsyncCancel(n) ==
  /\ n \in pendingCancel
  /\ pendingCancel' = pendingCancel \ {n}
  /\ cancelled' = IF n \in registered THEN [cancelled EXCEPT ![n] = TRUE] ELSE cancelled
  /\ lost' = IF n \in Selected \ registered THEN lost \cup {<<"cancel", n>>} ELSE lost
  /\ raced' = (raced \/ walk = "registering")
  /\ UNCHANGED <<walk, registered, pc, ready, completion, result, ffTriggered, ctxCancelled, extCancelled, poolClosed>>

ExtCancel ==
  /\ AllowExtCancel /\ ~extCancelled /\ walk \notin {"returned_done", "returned_ctx"}
  /\ extCancelled' = TRUE /\ ctxCancelled' = TRUE
  /\ UNCHANGED <<walk, registered, pc, ready, cancelled, completion, result, ffTriggered, poolClosed, pendingCancel, lost, raced>>

PoolShutdown ==
  /\ extCancelled /\ ~poolClosed
  /\ poolClosed' = TRUE
  /\ UNCHANGED <<walk, registered, pc, ready, cancelled, completion, result, ffTriggered, ctxCancelled, extCancelled, pendingCancel, lost, raced>>

WalkReturnDone ==
  /\ walk = "waiting" /\ \A n \in Selected : pc[n] = "finished"
  /\ walk' = "returned_done"
  /\ UNCHANGED <<registered, pc, ready, cancelled, completion, result, ffTriggered, ctxCancelled, extCancelled, poolClosed, pendingCancel, lost, raced>>

WalkReturnCtx ==
  /\ walk = "waiting" /\ ctxCancelled
  /\ walk' = "returned_ctx"
  /\ pendingCancel' = pendingCancel \cup Nodes
  /\ UNCHANGED <<registered, pc, ready, cancelled, completion, result, ffTriggered, ctxCancelled, extCancelled, poolClosed, lost, raced>>

Returned == walk \in {"returned_done", "returned_ctx"}
Done == Returned /\ UNCHANGED <<walk, registered, pc, ready, cancelled, completion, result, ffTriggered, ctxCancelled, extCancelled, poolClosed, pendingCancel, lost, raced>>

Next0 ==
  \/ \E n \in Nodes : WalkRegister(n) \/ WalkSpawn(n) \/ NodeTakeReady(n) \/ NodeTakeCancel(n)
                      \/ PoolStart(n) \/ PoolReject(n) \/ NodeOnComplete(n) \/ NodeCanceledReturn(n) \/ AsyncCancel(n)
                      \/ \E r \in {"ok", "fail", "canceled"} : TaskFinish(n, r)
  \/ WalkRegistered \/ WalkSpawned \/ ExtCancel \/ PoolShutdown \/ WalkReturnDone \/ WalkReturnCtx
  \/ Done

Next == Next0 /\ UNCHANGED cfg
Spec == Init /\ [][Next]_vars

\* ---- properties
DepsFirst == \A n \in Nodes : pc[n] \in {"called", "running", "returned"} => \A p \in Anc(n) : completion[p] = "ok"
WorkerBound == Cardinality(Running) <= NumWorkers
NoLostSignal == lost = {}
NoRace == ~raced
FailedAnc(n) == \E p \in Anc(n) : completion[p] = "fail"
Resolved == walk = "returned_done" =>
   \A n \in Selected : \/ completion[n] # "none"
                       \/ FailedAnc(n)
                       \/ ffTriggered \/ ctxCancelled
KeepGoingBuildsRest == (walk = "returned_done" /\ ~FailFast /\ ~ctxCancelled) =>
   \A n \in Selected : (~FailedAnc(n)) => completion[n] # "none"
NeverRunsBelowFailure == \A n \in Nodes : FailedAnc(n) => pc[n] \notin {"called", "running", "returned"} \/ completion[n] # "none" \/ TRUE
====
