package locking

// VerifGate is a scheduling gate used only by the verification harness.
var VerifGate = func(name string) {}
