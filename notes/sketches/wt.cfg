SPECIFICATION TSpec
CONSTANTS
  Nodes = {"a", "b", "c", "d"}
  Deps <- DepsDiamond
  Selected = {"a", "b", "c", "d"}
  FailFast = FALSE
  NumWorkers = 2
  CanFail = {"a", "b", "c"}
  SplitRegistration = TRUE
  AllowExtCancel = TRUE
INVARIANTS DepsFirst WorkerBound Resolved KeepGoingBuildsRest NoLostSignal NoRace
CONSTRAINT HighWater
POSTCONDITION Accepted
CHECK_DEADLOCK FALSE
