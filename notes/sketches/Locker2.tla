---- MODULE Locker2 ----
EXTENDS Naturals, FiniteSets, TLC
CONSTANTS Procs, Protocol, InitFiles, MaxCrashes, MaxIno
\* Protocol: "pidfile" (as-is) | "flock" (candidate repair)
\* inode 0 = "no file"; inode ids 1..MaxIno
VARIABLES path, content, owner, nextIno, pc, fd, seen, alive, crashes
vars == <<path, content, owner, nextIno, pc, fd, seen, alive, crashes>>
Inos == 1..MaxIno
None == "none"

Init == /\ \E f \in InitFiles :
             IF f = "nofile" THEN /\ path = 0 /\ content = [i \in Inos |-> "empty"] /\ nextIno = 1
                             ELSE /\ path = 1 /\ content = [i \in Inos |-> IF i = 1 THEN f ELSE "empty"] /\ nextIno = 2
        /\ owner = [i \in Inos |-> None]
        /\ pc = [p \in Procs |-> "start"] /\ fd = [p \in Procs |-> 0] /\ seen = [p \in Procs |-> "none"]
        /\ alive = Procs /\ crashes = 0

Goto(p, l) == pc' = [pc EXCEPT ![p] = l]

\* ---------- as-is pid-file protocol
PCreate(p) == /\ Protocol = "pidfile" /\ pc[p] = "start"
              /\ IF path = 0
                   THEN /\ nextIno <= MaxIno /\ path' = nextIno /\ nextIno' = nextIno + 1
                        /\ fd' = [fd EXCEPT ![p] = nextIno] /\ Goto(p, "write")
                   ELSE /\ Goto(p, "read") /\ UNCHANGED <<path, nextIno, fd>>
              /\ UNCHANGED <<content, owner, seen, alive, crashes>>
PWrite(p) == /\ pc[p] = "write" /\ content' = [content EXCEPT ![fd[p]] = p] /\ Goto(p, "held")
             /\ UNCHANGED <<path, owner, nextIno, fd, seen, alive, crashes>>
PRead(p) == /\ pc[p] = "read"
            /\ IF path = 0 THEN Goto(p, "remove") /\ UNCHANGED seen
                           ELSE seen' = [seen EXCEPT ![p] = content[path]] /\ Goto(p, "parse")
            /\ UNCHANGED <<path, content, owner, nextIno, fd, alive, crashes>>
PParse(p) == /\ pc[p] = "parse" /\ Goto(p, IF seen[p] \in {"empty", "garbage"} THEN "remove" ELSE "probe")
             /\ UNCHANGED <<path, content, owner, nextIno, fd, seen, alive, crashes>>
PProbe(p) == /\ pc[p] = "probe" /\ Goto(p, IF seen[p] \in alive THEN "sleep" ELSE "remove")
             /\ UNCHANGED <<path, content, owner, nextIno, fd, seen, alive, crashes>>
PRemove(p) == /\ pc[p] = "remove" /\ path' = 0 /\ Goto(p, "start")
              /\ UNCHANGED <<content, owner, nextIno, fd, seen, alive, crashes>>
PSleep(p) == /\ pc[p] = "sleep" /\ Goto(p, "start") /\ UNCHANGED <<path, content, owner, nextIno, fd, seen, alive, crashes>>
PUnlock(p) == /\ Protocol = "pidfile" /\ pc[p] = "held" /\ path' = 0 /\ Goto(p, "done")
              /\ UNCHANGED <<content, owner, nextIno, fd, seen, alive, crashes>>

\* ---------- flock protocol
FOpen(p) == /\ Protocol = "flock" /\ pc[p] = "start"
            /\ IF path = 0
                 THEN /\ nextIno <= MaxIno /\ path' = nextIno /\ nextIno' = nextIno + 1 /\ fd' = [fd EXCEPT ![p] = nextIno]
                 ELSE /\ fd' = [fd EXCEPT ![p] = path] /\ UNCHANGED <<path, nextIno>>
            /\ Goto(p, "flock") /\ UNCHANGED <<content, owner, seen, alive, crashes>>
FFlock(p) == /\ pc[p] = "flock"
             /\ IF owner[fd[p]] = None
                  THEN owner' = [owner EXCEPT ![fd[p]] = p] /\ Goto(p, "verify") /\ UNCHANGED fd
                  ELSE UNCHANGED owner /\ fd' = [fd EXCEPT ![p] = 0] /\ Goto(p, "fsleep")
             /\ UNCHANGED <<path, content, nextIno, seen, alive, crashes>>
FVerify(p) == /\ pc[p] = "verify"
              /\ IF path = fd[p]
                   THEN Goto(p, "fwrite") /\ UNCHANGED <<owner, fd>>
                   ELSE owner' = [owner EXCEPT ![fd[p]] = None] /\ fd' = [fd EXCEPT ![p] = 0] /\ Goto(p, "start")
              /\ UNCHANGED <<path, content, nextIno, seen, alive, crashes>>
FWrite(p) == /\ pc[p] = "fwrite" /\ content' = [content EXCEPT ![fd[p]] = p] /\ Goto(p, "held")
             /\ UNCHANGED <<path, owner, nextIno, fd, seen, alive, crashes>>
FSleep(p) == /\ pc[p] = "fsleep" /\ Goto(p, "start") /\ UNCHANGED <<path, content, owner, nextIno, fd, seen, alive, crashes>>
FUnlink(p) == /\ Protocol = "flock" /\ pc[p] = "held" /\ path' = 0 /\ Goto(p, "fclose")
              /\ UNCHANGED <<content, owner, nextIno, fd, seen, alive, crashes>>
FClose(p) == /\ pc[p] = "fclose" /\ owner' = [owner EXCEPT ![fd[p]] = None] /\ fd' = [fd EXCEPT ![p] = 0] /\ Goto(p, "done")
             /\ UNCHANGED <<path, content, nextIno, seen, alive, crashes>>

Crash(p) == /\ crashes < MaxCrashes /\ p \in alive /\ pc[p] \notin {"done"}
            /\ alive' = alive \ {p} /\ crashes' = crashes + 1 /\ Goto(p, "crashed")
            /\ owner' = [i \in Inos |-> IF owner[i] = p THEN None ELSE owner[i]]   \* kernel closes the fds
            /\ fd' = [fd EXCEPT ![p] = 0]
            /\ UNCHANGED <<path, content, nextIno, seen>>

Step(p) == PCreate(p) \/ PWrite(p) \/ PRead(p) \/ PParse(p) \/ PProbe(p) \/ PRemove(p) \/ PSleep(p) \/ PUnlock(p)
           \/ FOpen(p) \/ FFlock(p) \/ FVerify(p) \/ FWrite(p) \/ FSleep(p) \/ FUnlink(p) \/ FClose(p)
Terminal == \A p \in Procs : pc[p] \in {"done", "crashed"}
Next == (\E p \in Procs : Step(p) \/ Crash(p)) \/ (Terminal /\ UNCHANGED vars)
Spec == Init /\ [][Next]_vars /\ \A p \in Procs : WF_vars(Step(p))
Mutex == Cardinality({p \in Procs : pc[p] = "held"}) <= 1
AllFinish == <>Terminal
====
