---- MODULE GB3Gen ----
EXTENDS GB3, Json
VARIABLE hist
GInit == Init /\ hist = <<>>
Rec(a, t, c) == [a |-> a, t |-> t, c |-> c]
EditPhase == steps % 3 # 2
BuildRec(on) == [a |-> "Build", on |-> on, exec |-> lastExec', ok |-> lastOk',
                 ws |-> [t \in Targets |-> ToString(ws'[t])], taint |-> taint']
GNext ==
  \/ EditPhase /\ \E t \in Targets : EditInp(t) /\ hist' = Append(hist, Rec("EditInp", t, src'[t].inp))
  \/ EditPhase /\ \E t \in Targets : Taint(t) /\ hist' = Append(hist, Rec("Taint", t, 0))
  \/ EditPhase /\ \E t \in Targets : Perturb(t) /\ hist' = Append(hist, Rec("Perturb", t, 0))
  \/ EditPhase /\ \E t \in Targets, c \in Cmds : EditCmd(t, c) /\ hist' = Append(hist, Rec("EditCmd", t, c))
  \/ EditPhase /\ ToggleNoCache /\ hist' = Append(hist, Rec("ToggleNoCache", "b", IF "b" \in nocache' THEN 1 ELSE 0))
  \/ ~EditPhase /\ Build(TRUE) /\ hist' = Append(hist, BuildRec(TRUE))
  \/ ~EditPhase /\ Build(FALSE) /\ hist' = Append(hist, BuildRec(FALSE))
GSpec == GInit /\ [][GNext]_<<vars, hist>>
Emit == (steps = MaxSteps) => PrintT(<<"TRACEJSON", ToJson(hist)>>)
====
