---- MODULE WTrace ----
EXTENDS MCs, Sequences, Json, TLCExt
VARIABLES ti, l
Traces == JsonDeserialize("traces.json")
tvars == <<vars, ti, l>>
TInit == Init /\ ti = 1 /\ l = 1
Cur == Traces[ti][l]
Is(name) == ti <= Len(Traces) /\ l <= Len(Traces[ti]) /\ Cur.a = name
Adv == l' = l + 1 /\ ti' = ti
N == Cur.n
TNext ==
  \/ Is("WalkRegister") /\ WalkRegister(N) /\ Adv
  \/ Is("WalkSpawn") /\ WalkSpawn(N) /\ Adv
  \/ Is("NodeTakeReady") /\ NodeTakeReady(N) /\ Adv
  \/ Is("NodeTakeCancel") /\ NodeTakeCancel(N) /\ Adv
  \/ Is("PoolStart") /\ PoolStart(N) /\ Adv
  \/ Is("PoolReject") /\ PoolReject(N) /\ Adv
  \/ Is("NodeOnComplete") /\ NodeOnComplete(N) /\ Adv
  \/ Is("NodeCanceledReturn") /\ NodeCanceledReturn(N) /\ Adv
  \/ Is("AsyncCancel") /\ AsyncCancel(N) /\ Adv
  \/ Is("TaskFinish") /\ TaskFinish(N, Cur.r) /\ Adv
  \/ Is("WalkRegistered") /\ WalkRegistered /\ Adv
  \/ Is("WalkSpawned") /\ WalkSpawned /\ Adv
  \/ Is("ExtCancel") /\ ExtCancel /\ Adv
  \/ Is("PoolShutdown") /\ PoolShutdown /\ Adv
  \/ Is("WalkReturnDone") /\ WalkReturnDone /\ Adv
  \/ Is("WalkReturnCtx") /\ WalkReturnCtx /\ Adv
  \/ /\ ti <= Len(Traces) /\ l = Len(Traces[ti]) + 1      \* TraceReset
     /\ ti' = ti + 1 /\ l' = 1
     /\ walk' = "registering" /\ registered' = {} /\ pc' = [n \in Nodes |-> "none"] /\ ready' = [n \in Nodes |-> 0]
     /\ cancelled' = [n \in Nodes |-> FALSE] /\ completion' = [n \in Nodes |-> "none"] /\ result' = [n \in Nodes |-> "none"]
     /\ ffTriggered' = FALSE /\ ctxCancelled' = FALSE /\ extCancelled' = FALSE /\ poolClosed' = FALSE
     /\ pendingCancel' = {} /\ lost' = {} /\ raced' = FALSE
TSpec == TInit /\ [][TNext]_tvars
HighWater == TLCSet(1, IF ti > TLCGet(1) THEN ti ELSE TLCGet(1))
ASSUME TLCSet(1, 0)
Accepted == TLCGet(1) = Len(Traces) + 1
====
