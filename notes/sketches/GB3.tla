---- MODULE GB3 ----
EXTENDS Naturals, Sequences, FiniteSets, TLC
\* history-level sketch 2: chain a <- b <- c, b may carry no-cache, builds may run with the cache disabled
CONSTANTS MaxSteps
Targets == {"a", "b", "c"}
Order == <<"a", "b", "c">>
Dep == [t \in Targets |-> CASE t = "a" -> {} [] t = "b" -> {"a"} [] t = "c" -> {"b"}]
Cmds == {0, 1, 2}   \* 0 copy, 1 const, 2 fails
VARIABLES src, nocache, ws, results, taint, steps, lastExec, lastOk
vars == <<src, nocache, ws, results, taint, steps, lastExec, lastOk>>
Absent == <<"absent">>
F(t, s, depvals) == IF s[t].cmd = 1 THEN <<t, "const">> ELSE <<t, s[t].cmd, s[t].inp, depvals>>

\* a result: [out |-> output hash, has |-> TRUE iff outputs are stored, val |-> stored value]
RECURSIVE BuildFrom(_, _, _, _, _)
BuildFrom(i, st, s, nc, cacheOn) ==
  IF i > Len(Order) THEN st ELSE
  LET t == Order[i]
      blocked == \E d \in Dep[t] : d \in st.failed \/ d \in st.skipped
  IN IF blocked THEN BuildFrom(i + 1, [st EXCEPT !.skipped = @ \cup {t}], s, nc, cacheOn) ELSE
     LET depout == [d \in Dep[t] |-> st.out[d]]
         k == <<t, s[t].cmd, s[t].inp, depout>>
         has == k \in DOMAIN st.results
         hitcond == has /\ t \notin st.taint /\ t \notin nc /\ cacheOn
         loadable == has /\ st.results[k].has
     IN IF hitcond /\ loadable
        THEN BuildFrom(i + 1, [st EXCEPT !.ws[t] = st.results[k].val, !.out[t] = st.results[k].out], s, nc, cacheOn)
        ELSE IF s[t].cmd = 2
          THEN BuildFrom(i + 1, [st EXCEPT !.failed = @ \cup {t}, !.exec = @ \cup {t}], s, nc, cacheOn)
          ELSE LET v == F(t, s, [d \in Dep[t] |-> st.ws[d]])
                   stored == ~(t \in nc \/ ~cacheOn)
                   r == IF stored THEN [out |-> <<"stored", v>>, has |-> TRUE, val |-> v]
                                  ELSE [out |-> <<"local", v>>, has |-> FALSE, val |-> Absent]
               IN BuildFrom(i + 1, [st EXCEPT !.ws[t] = v, !.out[t] = r.out,
                                             !.results = (k :> r) @@ st.results,
                                             !.taint = @ \ {t}, !.exec = @ \cup {t}], s, nc, cacheOn)
NoWs == [t \in Targets |-> Absent]
St0(w, r, tn) == [ws |-> w, results |-> r, taint |-> tn, out |-> [t \in Targets |-> <<"none">>], failed |-> {}, skipped |-> {}, exec |-> {}]
Clean(s, nc) == BuildFrom(1, St0(NoWs, <<>>, {}), s, nc, TRUE)

Init == /\ src = [t \in Targets |-> [cmd |-> 0, inp |-> 0]] /\ nocache = {}
        /\ ws = NoWs /\ results = <<>> /\ taint = {} /\ steps = 0 /\ lastExec = {} /\ lastOk = FALSE
Step == steps < MaxSteps /\ steps' = steps + 1
EditInp(t) == Step /\ src' = [src EXCEPT ![t].inp = 1 - @] /\ lastOk' = FALSE /\ UNCHANGED <<nocache, ws, results, taint, lastExec>>
EditCmd(t, c) == Step /\ c # src[t].cmd /\ src' = [src EXCEPT ![t].cmd = c] /\ lastOk' = FALSE /\ UNCHANGED <<nocache, ws, results, taint, lastExec>>
ToggleNoCache == Step /\ nocache' = (IF "b" \in nocache THEN {} ELSE {"b"}) /\ lastOk' = FALSE /\ UNCHANGED <<src, ws, results, taint, lastExec>>
Taint(t) == Step /\ t \notin taint /\ taint' = taint \cup {t} /\ lastOk' = FALSE /\ UNCHANGED <<src, nocache, ws, results, lastExec>>
Perturb(t) == Step /\ ws[t] # Absent /\ ws' = [ws EXCEPT ![t] = Absent] /\ lastOk' = FALSE /\ UNCHANGED <<src, nocache, results, taint, lastExec>>
Build(cacheOn) == /\ Step
         /\ LET r == BuildFrom(1, St0(ws, results, taint), src, nocache, cacheOn) IN
            /\ ws' = r.ws /\ results' = r.results /\ taint' = r.taint
            /\ lastExec' = r.exec /\ lastOk' = (r.failed = {})
         /\ UNCHANGED <<src, nocache>>
Next == \/ \E t \in Targets : EditInp(t) \/ Taint(t) \/ Perturb(t) \/ \E c \in Cmds : EditCmd(t, c)
        \/ ToggleNoCache \/ Build(TRUE) \/ Build(FALSE)
Spec == Init /\ [][Next]_vars
C01 == lastOk => ws = Clean(src, nocache).ws
====
