---- MODULE KeyExport ----
EXTENDS Naturals, Sequences, FiniteSets, SequencesExt, TLC, Json
CONSTANT Framed   \* FALSE = encoding as the code does it today, TRUE = length-framed
\* menus (strings; TLC concatenates strings with \o)
Names == {"a", "b", "a,b"}
NameRank == [n \in Names |-> CASE n = "a" -> 1 [] n = "a,b" -> 2 [] n = "b" -> 3]   \* Go byte order: "a" < "a,b" < "b"
Contents == {"", "x", "xx"}
Cmds == {"c", "ca"}
FpKeys == {"k", "k=v"}
FpVals == {"w", "v=w"}
FpRank == [e \in FpKeys \X FpVals |-> CASE e = <<"k","w">> -> 2 [] e = <<"k","v=w">> -> 1 [] e = <<"k=v","w">> -> 3 [] e = <<"k=v","v=w">> -> 4]

\* a state: command, a nonempty set of input files with content (missing files are skipped by the code: modelled by content "MISSING"), fingerprint (partial map)
FileSets == {f \in [Names -> Contents \cup {"ABSENT"}] : \E n \in Names : f[n] # "ABSENT"}
Fps == {S \in SUBSET (FpKeys \X FpVals) : \A e1, e2 \in S : e1[1] = e2[1] => e1 = e2}
States == [cmd : Cmds, files : FileSets, fp : Fps]

Declared(s) == {n \in Names : s.files[n] # "ABSENT"}
SortedNames(s) == SetToSortSeq(Declared(s), LAMBDA x, y : NameRank[x] < NameRank[y])
SortedFp(s) == SetToSortSeq(s.fp, LAMBDA x, y : FpRank[x] < FpRank[y])

RECURSIVE Join(_, _)
Join(seq, sep) == IF seq = <<>> THEN "" ELSE IF Len(seq) = 1 THEN seq[1] ELSE seq[1] \o sep \o Join(Tail(seq), sep)
RECURSIVE Cat(_)
Cat(seq) == IF seq = <<>> THEN "" ELSE seq[1] \o Cat(Tail(seq))
Map(seq, Op(_)) == [i \in 1..Len(seq) |-> Op(seq[i])]

LenTag(str) == ToString(Len(str)) \o ":"
Fr(str) == LenTag(str) \o str

EncAsIs(s) ==
  <<  "//p:t" \o s.cmd \o Join(SortedNames(s), ",") \o Join(Map(SortedFp(s), LAMBDA e : e[1] \o "=" \o e[2]), ","),
      Cat(Map(SortedNames(s), LAMBDA n : s.files[n])) >>
EncFramed(s) ==
  <<  Fr("//p:t") \o Fr(s.cmd) \o ToString(Len(SortedNames(s))) \o ";" \o Cat(Map(SortedNames(s), Fr))
        \o ToString(Len(SortedFp(s))) \o ";" \o Cat(Map(SortedFp(s), LAMBDA e : Fr(e[1]) \o Fr(e[2]))),
      Cat(Map(SortedNames(s), LAMBDA n : Fr(n) \o Fr(s.files[n]))) >>
Enc(s) == IF Framed THEN EncFramed(s) ELSE EncAsIs(s)

Collisions == {pair \in States \X States : pair[1] # pair[2] /\ Enc(pair[1]) = Enc(pair[2])}
Canonical == Cardinality({Enc(s) : s \in States}) = Cardinality(States)
ASSUME PrintT(<<"states", Cardinality(States), "distinct encodings", Cardinality({Enc(s) : s \in States})>>)
Export == JsonSerialize("/tmp/proto/key/states.json", SetToSeq({[cmd |-> st.cmd, files |-> [n \in Declared(st) |-> st.files[n]], fp |-> SetToSeq(st.fp), enc |-> Enc(st)] : st \in States}))
ASSUME Export
VARIABLE x
Init == x = 0
Next == UNCHANGED x
====
