---- MODULE Gen ----
EXTENDS MC, Sequences, Json
VARIABLE hist
GInit == Init /\ hist = <<>>
Act(name, n) == [a |-> name, n |-> n]
GNext ==
  \/ \E n \in Nodes :
       \/ WalkRegister(n) /\ hist' = Append(hist, Act("WalkRegister", n))
       \/ WalkSpawn(n) /\ hist' = Append(hist, Act("WalkSpawn", n))
       \/ NodeTakeReady(n) /\ hist' = Append(hist, Act("NodeTakeReady", n))
       \/ NodeTakeCancel(n) /\ hist' = Append(hist, Act("NodeTakeCancel", n))
       \/ PoolStart(n) /\ hist' = Append(hist, Act("PoolStart", n))
       \/ PoolReject(n) /\ hist' = Append(hist, Act("PoolReject", n))
       \/ NodeOnComplete(n) /\ hist' = Append(hist, Act("NodeOnComplete", n))
       \/ NodeCanceledReturn(n) /\ hist' = Append(hist, Act("NodeCanceledReturn", n))
       \/ AsyncCancel(n) /\ hist' = Append(hist, Act("AsyncCancel", n))
       \/ \E r \in {"ok", "fail", "canceled"} : TaskFinish(n, r) /\ hist' = Append(hist, [a |-> "TaskFinish", n |-> n, r |-> r])
  \/ WalkRegistered /\ hist' = Append(hist, Act("WalkRegistered", "-"))
  \/ WalkSpawned /\ hist' = Append(hist, Act("WalkSpawned", "-"))
  \/ ExtCancel /\ hist' = Append(hist, Act("ExtCancel", "-"))
  \/ PoolShutdown /\ hist' = Append(hist, Act("PoolShutdown", "-"))
  \/ WalkReturnDone /\ hist' = Append(hist, Act("WalkReturnDone", "-"))
  \/ WalkReturnCtx /\ hist' = Append(hist, Act("WalkReturnCtx", "-"))
GSpec == GInit /\ [][GNext]_<<vars, hist>>
Emit == Returned => PrintT(<<"TRACEJSON", ToJson(hist)>>)
====
