---- MODULE T ----
EXTENDS Naturals, Sequences, TLC, Json, TLCExt
TraceLog == ndJsonDeserialize("trace.ndjson")
VARIABLES l, x
Init == l = 1 /\ x = 0
Step == /\ l <= Len(TraceLog) /\ TraceLog[l].ev = "inc" /\ x' = x + TraceLog[l].by /\ x' = TraceLog[l].x /\ l' = l + 1
Next == Step
Spec == Init /\ [][Next]_<<l, x>>
Accepted == TLCGet("stats").diameter - 1 = Len(TraceLog)
Inv == x < 100
====
