---- MODULE GB ----
EXTENDS Naturals, Sequences, FiniteSets, TLC
\* history-level prototype: chain a <- b <- c, sequential topological build
CONSTANTS MaxSteps
Targets == {"a", "b", "c"}
Order == <<"a", "b", "c">>
Dep == [t \in Targets |-> CASE t = "a" -> {} [] t = "b" -> {"a"} [] t = "c" -> {"b"}]
Cmds == {0, 1, 2}   \* 0 copy, 1 const (ignores inputs and deps), 2 fails
Inps == {0, 1}

VARIABLES src, ws, results, taint, steps, lastExec, lastOk
vars == <<src, ws, results, taint, steps, lastExec, lastOk>>

F(t, s, depvals) == IF s[t].cmd = 1 THEN <<t, "const">> ELSE <<t, s[t].cmd, s[t].inp, depvals>>

\* sequential build fold: state = [ws, results, taint, out (outhash per target), failed set, exec set]
RECURSIVE BuildFrom(_, _, _)
BuildFrom(i, st, s) ==
  IF i > Len(Order) THEN st ELSE
  LET t == Order[i]
      blocked == \E d \in Dep[t] : d \in st.failed \/ d \in st.skipped
  IN IF blocked THEN BuildFrom(i + 1, [st EXCEPT !.skipped = @ \cup {t}], s) ELSE
     LET depout == [d \in Dep[t] |-> st.out[d]]
         k == <<t, s[t].cmd, s[t].inp, depout>>
         hit == k \in DOMAIN st.results /\ t \notin st.taint
     IN IF hit
        THEN BuildFrom(i + 1, [st EXCEPT !.ws[t] = st.results[k], !.out[t] = st.results[k]], s)
        ELSE IF s[t].cmd = 2
          THEN BuildFrom(i + 1, [st EXCEPT !.failed = @ \cup {t}, !.exec = @ \cup {t}], s)
          ELSE LET v == F(t, s, [d \in Dep[t] |-> st.ws[d]])
               IN BuildFrom(i + 1, [st EXCEPT !.ws[t] = v, !.out[t] = v,
                                             !.results = (k :> v) @@ st.results,
                                             !.taint = @ \ {t}, !.exec = @ \cup {t}], s)

NoWs == [t \in Targets |-> <<"absent">>]
St0(w, r, tn) == [ws |-> w, results |-> r, taint |-> tn, out |-> [t \in Targets |-> <<"none">>], failed |-> {}, skipped |-> {}, exec |-> {}]
Clean(s) == BuildFrom(1, St0(NoWs, <<>>, {}), s)

Init == /\ src = [t \in Targets |-> [cmd |-> 0, inp |-> 0]]
        /\ ws = NoWs /\ results = <<>> /\ taint = {} /\ steps = 0 /\ lastExec = {} /\ lastOk = FALSE

Step == steps < MaxSteps /\ steps' = steps + 1
EditInp(t) == Step /\ src' = [src EXCEPT ![t].inp = 1 - @] /\ lastOk' = FALSE /\ UNCHANGED <<ws, results, taint, lastExec>>
EditCmd(t, c) == Step /\ c # src[t].cmd /\ src' = [src EXCEPT ![t].cmd = c] /\ lastOk' = FALSE /\ UNCHANGED <<ws, results, taint, lastExec>>
Taint(t) == Step /\ t \notin taint /\ taint' = taint \cup {t} /\ lastOk' = FALSE /\ UNCHANGED <<src, ws, results, lastExec>>
Perturb(t) == Step /\ ws[t] # <<"absent">> /\ ws' = [ws EXCEPT ![t] = <<"absent">>] /\ lastOk' = FALSE /\ UNCHANGED <<src, results, taint, lastExec>>
Build == /\ Step
         /\ LET r == BuildFrom(1, St0(ws, results, taint), src) IN
            /\ ws' = r.ws /\ results' = r.results /\ taint' = r.taint
            /\ lastExec' = r.exec /\ lastOk' = (r.failed = {})
         /\ UNCHANGED src
Next == \/ \E t \in Targets : EditInp(t) \/ Taint(t) \/ Perturb(t) \/ \E c \in Cmds : EditCmd(t, c)
        \/ Build
Spec == Init /\ [][Next]_vars

C01 == lastOk => ws = Clean(src).ws
View == <<src, ws, results, taint, steps, lastOk>>
====
