SPECIFICATION Spec
CONSTANT MaxSteps = 7
INVARIANT C01
CHECK_DEADLOCK FALSE
