SPECIFICATION GSpec
CONSTANT MaxSteps = 12
INVARIANT Emit
INVARIANT C01
CHECK_DEADLOCK FALSE
