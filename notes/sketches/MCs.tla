---- MODULE MCs ----
EXTENDS Walker
DepsDiamond == ("a" :> {}) @@ ("b" :> {"a"}) @@ ("c" :> {"a"}) @@ ("d" :> {"b", "c"})
====
