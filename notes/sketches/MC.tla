---- MODULE MC ----
EXTENDS Walker
CONSTANTS a, b, c, d
DepsDiamond == (a :> {}) @@ (b :> {a}) @@ (c :> {a}) @@ (d :> {b, c})
====
