---- MODULE Locker ----
EXTENDS Naturals, FiniteSets, TLC
CONSTANTS Procs, StaleAtStart, MaxCrashes
\* file: "none" | "empty" | p (pid written) | "dead" (pid of a process that no longer exists)
VARIABLES file, pc, seen, alive, crashes
vars == <<file, pc, seen, alive, crashes>>

Init == /\ file \in (IF StaleAtStart THEN {"dead", "none", "empty"} ELSE {"none"})
        /\ pc = [p \in Procs |-> "start"]
        /\ seen = [p \in Procs |-> "none"]
        /\ alive = Procs /\ crashes = 0

IsAlivePid(x) == x \in alive

\* os.OpenFile(O_CREATE|O_EXCL)
TryCreate(p) == /\ pc[p] = "start"
                /\ IF file = "none" THEN /\ file' = "empty" /\ pc' = [pc EXCEPT ![p] = "created"]
                                    ELSE /\ UNCHANGED file /\ pc' = [pc EXCEPT ![p] = "exists"]
                /\ UNCHANGED <<seen, alive, crashes>>
\* file.Write(pid) on the fd we created (writes into the inode we created even if unlinked meanwhile)
\* abstraction: if the path still names our inode the content becomes p; we track inode identity by owner tag
WritePid(p) == /\ pc[p] = "created"
               /\ file' = IF file = "empty" THEN p ELSE file   \* crude: see note
               /\ pc' = [pc EXCEPT ![p] = "held"]
               /\ UNCHANGED <<seen, alive, crashes>>
ReadFile(p) == /\ pc[p] = "exists"
               /\ IF file = "none" THEN pc' = [pc EXCEPT ![p] = "remove"]   \* read error -> remove, continue
                                   ELSE pc' = [pc EXCEPT ![p] = "parse"]
               /\ seen' = [seen EXCEPT ![p] = file]
               /\ UNCHANGED <<file, alive, crashes>>
Parse(p) == /\ pc[p] = "parse"
            /\ pc' = [pc EXCEPT ![p] = IF seen[p] = "empty" THEN "remove" ELSE "probe"]
            /\ UNCHANGED <<file, seen, alive, crashes>>
Probe(p) == /\ pc[p] = "probe"
            /\ pc' = [pc EXCEPT ![p] = IF IsAlivePid(seen[p]) THEN "sleep" ELSE "remove"]
            /\ UNCHANGED <<file, seen, alive, crashes>>
Remove(p) == /\ pc[p] = "remove"
             /\ file' = "none"
             /\ pc' = [pc EXCEPT ![p] = "start"]
             /\ UNCHANGED <<seen, alive, crashes>>
Sleep(p) == /\ pc[p] = "sleep" /\ pc' = [pc EXCEPT ![p] = "start"] /\ UNCHANGED <<file, seen, alive, crashes>>
Unlock(p) == /\ pc[p] = "held" /\ file' = "none" /\ pc' = [pc EXCEPT ![p] = "done"] /\ UNCHANGED <<seen, alive, crashes>>
Crash(p) == /\ crashes < MaxCrashes /\ p \in alive /\ pc[p] \notin {"done"}
            /\ alive' = alive \ {p} /\ pc' = [pc EXCEPT ![p] = "crashed"] /\ crashes' = crashes + 1
            /\ UNCHANGED <<file, seen>>
Terminal == \A p \in Procs : pc[p] \in {"done", "crashed"}
Next == \/ \E p \in Procs : TryCreate(p) \/ WritePid(p) \/ ReadFile(p) \/ Parse(p) \/ Probe(p) \/ Remove(p) \/ Sleep(p) \/ Unlock(p) \/ Crash(p)
        \/ (Terminal /\ UNCHANGED vars)
Spec == Init /\ [][Next]_vars /\ \A p \in Procs : WF_vars(TryCreate(p) \/ WritePid(p) \/ ReadFile(p) \/ Parse(p) \/ Probe(p) \/ Remove(p) \/ Sleep(p) \/ Unlock(p))
Mutex == Cardinality({p \in Procs : pc[p] = "held"}) <= 1
EventuallyAll == <>Terminal
====
