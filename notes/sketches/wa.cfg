SPECIFICATION Spec
CONSTANTS N = 4
 MaxWorkers = 2
 SplitRegistration = TRUE
 AllowExtCancel = TRUE
INVARIANTS DepsFirst WorkerBound Resolved KeepGoingBuildsRest NoLostSignal NoRace
