import json, os, subprocess, shutil, hashlib, sys, tempfile
G='/tmp/gx/grog'
def sh(cmd, cwd, env): return subprocess.run(cmd, cwd=cwd, env=env, shell=True, capture_output=True, text=True)
DEP={'a':[], 'b':['a'], 'c':['b']}
def cmd_for(t, v):
    pre='echo "S %s" >> $GROG_WORKSPACE_ROOT/trace; ' % t
    if v==0:
        deps=' '.join('%s.out'%d for d in DEP[t])
        return pre+'{ echo %s 0; cat %s.in %s; } | sha256sum > %s.out' % (t,t,deps,t)
    if v==1: return pre+'echo const-%s > %s.out' % (t,t)
    return pre+'exit 1'
def write_build(ws, src, nc=False):
    targets=[]
    for t in 'abc':
        targets.append({"name":t,"command":cmd_for(t,src[t]['cmd']),"inputs":[t+'.in'],"outputs":[t+'.out'],"dependencies":[':'+d for d in DEP[t]], "tags": (["no-cache"] if (nc and t=='b') else [])})
    json.dump({"targets":targets}, open(ws+'/pkg/BUILD.json','w'))
def digest(p):
    try: return hashlib.sha256(open(p,'rb').read()).hexdigest()[:12]
    except FileNotFoundError: return None
def run(hist, idx):
    base=tempfile.mkdtemp(prefix='gbr')
    ws=base+'/ws'; os.makedirs(ws+'/pkg'); open(ws+'/grog.toml','w').close()
    env=dict(os.environ, GROG_ROOT=base+'/root', HOME=base)
    src={t:{'cmd':0,'inp':0} for t in 'abc'}
    nc=[False]
    for t in 'abc': open(ws+'/pkg/%s.in'%t,'w').write('0')
    write_build(ws, src, nc[0])
    naming={}  # abstract value -> real digest
    rev={}
    problems=[]
    for i,e in enumerate(hist):
        a=e['a']
        if a=='EditInp': src[e['t']]['inp']=e['c']; open(ws+'/pkg/%s.in'%e['t'],'w').write(str(e['c']))
        elif a=='EditCmd': src[e['t']]['cmd']=e['c']; write_build(ws, src, nc[0])
        elif a=='ToggleNoCache': nc[0]=bool(e['c']); write_build(ws, src, nc[0])
        elif a=='Taint':
            r=sh(G+' taint //pkg:%s'%e['t'], ws, env)
            if r.returncode!=0: problems.append((i,'taint failed',r.stderr[-200:]))
        elif a=='Perturb':
            try: os.remove(ws+'/pkg/%s.out'%e['t'])
            except FileNotFoundError: problems.append((i,'perturb: output absent in real ws but present in model',e['t']))
        elif a=='Build':
            open(ws+'/trace','w').close()
            r=sh(G+' build '+('' if e['on'] else '--enable-cache=false ')+'//...', ws, env)
            execd=sorted(l.split()[1] for l in open(ws+'/trace').read().splitlines())
            if execd!=sorted(e['exec']): problems.append((i,'executed set', execd, sorted(e['exec'])))
            if (r.returncode==0)!=e['ok']: problems.append((i,'status', r.returncode, e['ok']))
            for t in 'abc':
                av=e['ws'][t]; rd=digest(ws+'/pkg/%s.out'%t)
                if av=='<<"absent">>':
                    if rd is not None: problems.append((i,'ws: model absent, real present',t))
                    continue
                if rd is None: problems.append((i,'ws: model present, real absent',t)); continue
                if av in naming and naming[av]!=rd: problems.append((i,'value naming split',t,av))
                if rd in rev and rev[rd]!=av: problems.append((i,'value naming collision',t,av,rev[rd]))
                naming.setdefault(av,rd); rev.setdefault(rd,av)
            tdir=base+'/root/'+os.listdir(base+'/root')[0]+'/cache/taint'
            tainted=sorted(x.split(':')[1] for x in os.listdir(tdir)) if os.path.isdir(tdir) else []
            if sorted(e['taint'])!=tainted: problems.append((i,'taint set', tainted, e['taint']))
    shutil.rmtree(base)
    return problems
if __name__=='__main__':
    from concurrent.futures import ThreadPoolExecutor
    hs=[json.loads(l) for l in open('/tmp/proto/gb3/hist.jsonl')]
    with ThreadPoolExecutor(16) as ex:
        res=list(ex.map(lambda p: run(p[1],p[0]), enumerate(hs)))
    bad=0
    for i,(h,p) in enumerate(zip(hs,res)):
        if p:
            bad+=1
            if bad<=6: print('history',i,[ (e['a'],e.get('t'),e.get('c')) for e in h]); print('   problems',p[:3])
    print('histories',len(hs),'with problems',bad, 'builds', sum(1 for h in hs for e in h if e['a']=='Build'))
