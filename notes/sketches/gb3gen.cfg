SPECIFICATION GSpec
CONSTANT MaxSteps = 15
INVARIANT Emit
CHECK_DEADLOCK FALSE
