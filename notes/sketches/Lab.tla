---- MODULE Lab ----
EXTENDS Naturals, Sequences, FiniteSets, SequencesExt, TLC, Json
CONSTANT L
Sigma == {"/", ":", ".", "a", "l", "p", "q", "2"}
Strs == UNION {[1..n -> Sigma] : n \in 0..L}
NameChar(c) == c \in {".", "a", "l", "p", "q", "2"}
IndexOf(s, c) == IF \E i \in 1..Len(s) : s[i] = c THEN CHOOSE i \in 1..Len(s) : s[i] = c /\ \A j \in 1..(i-1) : s[j] # c ELSE 0
ValidName(n) == n # <<>> /\ n # <<".", ".", ".">> /\ \A i \in 1..Len(n) : NameChar(n[i])
LastComponent(pkg) == LET idxs == {i \in 1..Len(pkg) : pkg[i] = "/"} IN
                      IF idxs = {} THEN pkg ELSE LET m == CHOOSE i \in idxs : \A j \in idxs : j <= i IN SubSeq(pkg, m + 1, Len(pkg))
\* reference ParseLabel(currentPackage = <<"p">>, s): returns [ok, pkg, name]
Bad == [ok |-> FALSE, pkg |-> <<>>, name |-> <<>>]
ParseLabel(s) ==
  IF Len(s) >= 1 /\ s[1] = ":" THEN
      LET n == Tail(s) IN IF ValidName(n) THEN [ok |-> TRUE, pkg |-> <<"p">>, name |-> n] ELSE Bad
  ELSE IF Len(s) >= 2 /\ s[1] = "/" /\ s[2] = "/" THEN
      LET body == SubSeq(s, 3, Len(s)) c == IndexOf(body, ":") IN
      IF c = 0 THEN (IF body = <<>> THEN Bad ELSE LET n == LastComponent(body) IN IF ValidName(n) THEN [ok |-> TRUE, pkg |-> body, name |-> n] ELSE Bad)
      ELSE LET pk == SubSeq(body, 1, c - 1) n == SubSeq(body, c + 1, Len(body)) IN
           IF ValidName(n) THEN [ok |-> TRUE, pkg |-> pk, name |-> n] ELSE Bad
  ELSE Bad
Table == {[s |-> s, r |-> ParseLabel(s)] : s \in Strs}
ASSUME PrintT(<<"strings", Cardinality(Strs), "ok", Cardinality({e \in Table : e.r.ok})>>)
VARIABLE x
Init == x = 0
Next == UNCHANGED x
====
