SPECIFICATION Spec
CONSTANTS Procs = {p1, p2}
 StaleAtStart = FALSE
 MaxCrashes = 0
INVARIANT Mutex
