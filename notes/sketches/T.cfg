SPECIFICATION Spec
INVARIANT Inv
POSTCONDITION Accepted
CHECK_DEADLOCK FALSE
