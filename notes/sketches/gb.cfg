SPECIFICATION Spec
CONSTANT MaxSteps = 6
INVARIANT C01
CHECK_DEADLOCK FALSE
