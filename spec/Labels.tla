------------------------------- MODULE Labels -------------------------------
(* C17 -- the label / pattern algebra of docs/reference/labels.md as a function specification.

   Strings are sequences of one-character strings over Sigma.  Every string of length <= L is one
   initial state of the state machine below; its single step prints the parsed value and re-parses it,
   so TLC's states are the cases and the algebra's theorems are invariants evaluated in every state.
   The reference results are exported (ASSUME ... JsonSerialize) and replayed into the real
   label.ParseTargetLabel / ParseTargetPattern / Matches / String by the Go harness (binding B3).

   Three classes per string and parser:
     "wf"    a documented form: the result is specified exactly and the code must produce it;
     "mr"    must be rejected (no // or : prefix, explicit name empty / reserved / with : or /);
     "other" the documentation does not say (odd package parts such as //a//b, //a/:x, x:y):
             only stability is required of the code (if it parses, print/re-parse is a fixpoint
             and, for patterns, preserves the match set). *)
EXTENDS Naturals, Sequences, FiniteSets, SequencesExt, TLC, Json

CONSTANTS L,        \* maximal string length enumerated
          CurPkg,   \* the current package, a sequence of characters, e.g. <<"p">>
          OutFile   \* where the reference table is written ("" = no export)

Sigma == {"/", ":", ".", "a", "l", "p", "q", "2"}
Strs == UNION {[1..n -> Sigma] : n \in 0..L}

RECURSIVE Str(_)
Str(s) == IF s = <<>> THEN "" ELSE s[1] \o Str(Tail(s))

IndexOf(s, c) == IF \E i \in 1..Len(s) : s[i] = c
                 THEN CHOOSE i \in 1..Len(s) : s[i] = c /\ \A j \in 1..(i-1) : s[j] # c
                 ELSE 0
RECURSIVE SplitOn(_, _)
SplitOn(s, c) == LET i == IndexOf(s, c) IN
                 IF i = 0 THEN <<s>> ELSE <<SubSeq(s, 1, i-1)>> \o SplitOn(SubSeq(s, i+1, Len(s)), c)
StartsWith(s, p) == Len(s) >= Len(p) /\ SubSeq(s, 1, Len(p)) = p
EndsWith(s, p) == Len(s) >= Len(p) /\ SubSeq(s, Len(s) - Len(p) + 1, Len(s)) = p

Ellipsis == <<".", ".", ".">>
AllWord == <<"a", "l", "l">>
NameChar(c) == c \notin {"/", ":"}
ValidName(n) == n # <<>> /\ n # Ellipsis /\ \A i \in 1..Len(n) : NameChar(n[i])
OnlyDots(n) == \A i \in 1..Len(n) : n[i] = "."
GoodComp(c) == ValidName(c) /\ ~OnlyDots(c)
Comps(pk) == IF pk = <<>> THEN <<>> ELSE SplitOn(pk, "/")
HasEllipsis(s) == \E i \in 1..Len(s) : i + 2 <= Len(s) /\ SubSeq(s, i, i+2) = Ellipsis
WFPkg(pk) == ~HasEllipsis(pk) /\ \A i \in 1..Len(Comps(pk)) : GoodComp(Comps(pk)[i])
LastComp(pk) == LET cs == SplitOn(pk, "/") IN cs[Len(cs)]

NoLabel == [class |-> "mr", pkg |-> <<>>, name |-> <<>>]

(* ---------------------------------------------------------------- labels *)
LabelOf(cur, s) ==
  IF StartsWith(s, <<":">>) THEN
       LET n == Tail(s) IN
       IF ValidName(n) THEN [class |-> IF WFPkg(cur) THEN "wf" ELSE "other", pkg |-> cur, name |-> n] ELSE NoLabel
  ELSE IF StartsWith(s, <<"/", "/">>) THEN
       LET body == SubSeq(s, 3, Len(s))
           c == IndexOf(body, ":") IN
       IF c = 0 THEN
            IF body # <<>> /\ WFPkg(body)
              THEN [class |-> "wf", pkg |-> body, name |-> LastComp(body)]
              ELSE [class |-> "other", pkg |-> <<>>, name |-> <<>>]
       ELSE LET pk == SubSeq(body, 1, c-1)
                n == SubSeq(body, c+1, Len(body)) IN
            IF ~ValidName(n) THEN NoLabel
            ELSE [class |-> IF WFPkg(pk) THEN "wf" ELSE "other", pkg |-> pk, name |-> n]
  ELSE NoLabel

PrintLabel(l) == <<"/", "/">> \o l.pkg \o <<":">> \o l.name

(* ---------------------------------------------------------------- patterns *)
NoPat(c) == [class |-> c, prefix |-> <<>>, name |-> <<>>, rec |-> FALSE]
NameFilterOK(tp) == ValidName(tp) \/ tp = Ellipsis

PatOf(cur, s) ==
  IF StartsWith(s, <<"/", "/">>) THEN
       LET body == SubSeq(s, 3, Len(s))
           c == IndexOf(body, ":")
           pp == IF c = 0 THEN body ELSE SubSeq(body, 1, c-1)
           tp == IF c = 0 THEN <<>> ELSE SubSeq(body, c+1, Len(body)) IN
       IF c # 0 /\ tp = <<>> THEN NoPat("mr")
       ELSE IF c # 0 /\ ~NameFilterOK(tp) THEN NoPat("other")
       ELSE IF pp = Ellipsis THEN [class |-> "wf", prefix |-> <<>>, name |-> tp, rec |-> TRUE]
       ELSE IF EndsWith(pp, <<"/">> \o Ellipsis) /\ Len(pp) > 4 /\ WFPkg(SubSeq(pp, 1, Len(pp)-4))
            THEN [class |-> "wf", prefix |-> SubSeq(pp, 1, Len(pp)-4), name |-> tp, rec |-> TRUE]
       ELSE IF WFPkg(pp) /\ (c # 0 \/ pp # <<>>)
            THEN [class |-> "wf", prefix |-> pp, name |-> IF c = 0 THEN LastComp(pp) ELSE tp, rec |-> FALSE]
       ELSE NoPat("other")
  ELSE IF StartsWith(s, <<":">>) THEN
       LET tp == Tail(s) IN
       IF NameFilterOK(tp) THEN [class |-> IF WFPkg(cur) THEN "wf" ELSE "other", prefix |-> cur, name |-> tp, rec |-> FALSE]
       ELSE NoPat("other")
  ELSE IF IndexOf(s, ":") = 0 THEN NoPat("mr")
  ELSE NoPat("other")

PrintPat(p) == <<"/", "/">> \o p.prefix
               \o (IF p.rec THEN (IF p.prefix = <<>> THEN Ellipsis ELSE <<"/">> \o Ellipsis) ELSE <<>>)
               \o (IF p.name = <<>> THEN <<>> ELSE <<":">> \o p.name)

IsPrefixSeq(a, b) == Len(a) <= Len(b) /\ SubSeq(b, 1, Len(a)) = a
Matches(p, l) ==
  /\ IF p.rec THEN IsPrefixSeq(Comps(p.prefix), Comps(l.pkg)) ELSE l.pkg = p.prefix
  /\ \/ p.name = <<>> \/ p.name = AllWord \/ p.name = Ellipsis
     \/ p.name = l.name

(* the bounded universe of labels patterns are matched against *)
UPkgs == { <<>>, <<"p">>, <<"p","2">>, <<"p","q">>, <<"p","/","q">>, <<"p","/","q","2">>,
           <<"p","/","q","/","a">>, <<"q">>, <<"a">>, <<"a","l","l">>, <<"2">>, <<"q","/","p">> }
UNames == { <<"a">>, <<"a","l","l">>, <<"p">>, <<"q">>, <<"q","2">>, <<"2">>, <<"p","2">> }
Universe == { [pkg |-> pk, name |-> n] : pk \in UPkgs, n \in UNames }
MatchSet(p) == { l \in Universe : Matches(p, l) }

(* ---------------------------------------------------------------- state machine: one state per string *)
VARIABLES str, phase
vars == <<str, phase>>

(* structured strings: the documented forms assembled from pieces, beyond the length bound *)
SPkgs == UPkgs \cup { <<"p","/">>, <<"/","p">>, <<"p","/","/","q">>, <<".">>, <<".",".">>, <<"p","/",".",".">> }
SSuffix == { <<>>, <<"/">> \o Ellipsis, Ellipsis, <<"/">>, <<"/">> \o Ellipsis \o <<"/">>, <<"/">> \o Ellipsis \o <<"q">>, <<".", ".", ".", ".">> }
SNameParts == { <<>> } \cup { <<":">> \o n : n \in UNames \cup { <<>>, Ellipsis, AllWord, <<"q", ":", "a">>, <<"q", "/", "a">>, <<".">> } }
Structured == { <<"/", "/">> \o pk \o sf \o np : pk \in SPkgs, sf \in SSuffix, np \in SNameParts }
              \cup { pk \o np : pk \in { <<>>, <<"p">>, <<"p","/","q">> }, np \in SNameParts }
All == Strs \cup Structured

Init == str \in All /\ phase = "raw"
Next == /\ phase = "raw"
        /\ \/ /\ LabelOf(CurPkg, str).class = "wf"
              /\ str' = PrintLabel(LabelOf(CurPkg, str)) /\ phase' = "label-printed"
           \/ /\ PatOf(CurPkg, str).class = "wf"
              /\ str' = PrintPat(PatOf(CurPkg, str)) /\ phase' = "pattern-printed"
Spec == Init /\ [][Next]_vars

(* ---------------------------------------------------------------- theorems, evaluated in every state *)
\* printing a (well-formed) label and parsing it again gives the same label; printed labels are canonical
LabelRoundTrip ==
  LabelOf(CurPkg, str).class = "wf" =>
     LET l == LabelOf(CurPkg, str) pl == LabelOf(<<>>, PrintLabel(l)) IN
       pl.class = "wf" /\ pl.pkg = l.pkg /\ pl.name = l.name
\* //a/b means //a/b:b
Shorthand ==
  (StartsWith(str, <<"/", "/">>) /\ IndexOf(str, ":") = 0 /\ LabelOf(CurPkg, str).class = "wf") =>
     LET full == LabelOf(CurPkg, str \o <<":">> \o LastComp(SubSeq(str, 3, Len(str)))) IN
       full.pkg = LabelOf(CurPkg, str).pkg /\ full.name = LabelOf(CurPkg, str).name
\* :x resolves against the current package
Relative ==
  (StartsWith(str, <<":">>) /\ LabelOf(CurPkg, str).class = "wf") => LabelOf(CurPkg, str).pkg = CurPkg
\* printing then re-parsing a pattern preserves its match set (and the printed form is a fixpoint)
PatternRoundTrip ==
  PatOf(CurPkg, str).class = "wf" =>
     LET p == PatOf(CurPkg, str) q == PatOf(<<>>, PrintPat(p)) IN
       q.class = "wf" /\ MatchSet(q) = MatchSet(p) /\ PrintPat(q) = PrintPat(p)
\* //p/... matches p and packages below it at component boundaries, never a sibling such as p2
ComponentBoundary ==
  (PatOf(CurPkg, str).class = "wf" /\ PatOf(CurPkg, str).rec /\ PatOf(CurPkg, str).prefix # <<>>) =>
     LET p == PatOf(CurPkg, str) IN
     \A l \in Universe : Matches(p, l) =>
         \/ l.pkg = p.prefix
         \/ (StartsWith(l.pkg, p.prefix \o <<"/">>))
\* //p:all (and //p:...) match exactly package p
AllIsPackageLocal ==
  (PatOf(CurPkg, str).class = "wf" /\ ~PatOf(CurPkg, str).rec /\ PatOf(CurPkg, str).name \in {AllWord, Ellipsis}) =>
     MatchSet(PatOf(CurPkg, str)) = { l \in Universe : l.pkg = PatOf(CurPkg, str).prefix }
\* a name suffix restricts by exact target name
NameSuffixExact ==
  (PatOf(CurPkg, str).class = "wf" /\ PatOf(CurPkg, str).name \notin {<<>>, AllWord, Ellipsis}) =>
     \A l \in MatchSet(PatOf(CurPkg, str)) : l.name = PatOf(CurPkg, str).name
\* a label used as a pattern matches exactly itself
LabelAsPattern ==
  (LabelOf(CurPkg, str).class = "wf" /\ PatOf(CurPkg, str).class = "wf" /\ ~PatOf(CurPkg, str).rec
     /\ LabelOf(CurPkg, str).name \notin {AllWord}) =>
     MatchSet(PatOf(CurPkg, str)) = { l \in Universe : l.pkg = LabelOf(CurPkg, str).pkg /\ l.name = LabelOf(CurPkg, str).name }

(* ---------------------------------------------------------------- export for the conformance harness *)
Prefixed == { s \in All : StartsWith(s, <<"/", "/">>) \/ StartsWith(s, <<":">>) }
LabelRow(s) == LET l == LabelOf(CurPkg, s) IN
  [s |-> Str(s), class |-> l.class, pkg |-> Str(l.pkg), name |-> Str(l.name)]
PatRow(s) == LET p == PatOf(CurPkg, s) IN
  [s |-> Str(s), class |-> p.class,
   printed |-> IF p.class = "wf" THEN Str(PrintPat(p)) ELSE "",
   matches |-> IF p.class = "wf" THEN { Str(PrintLabel(l)) : l \in MatchSet(p) } ELSE {}]
Export ==
  [ L |-> L, cur |-> Str(CurPkg), sigma |-> Sigma,
    universe |-> { [pkg |-> Str(l.pkg), name |-> Str(l.name)] : l \in Universe },
    total |-> Cardinality(Strs), extra |-> { Str(s) : s \in Structured \ Strs },
    labels |-> { LabelRow(s) : s \in { t \in Prefixed : LabelOf(CurPkg, t).class # "mr" } },
    patterns |-> { PatRow(s) : s \in { t \in All : PatOf(CurPkg, t).class = "wf" } },
    pattern_mr |-> { Str(s) : s \in { t \in Prefixed : PatOf(CurPkg, t).class = "mr" } } ]
ASSUME OutFile = "" \/ JsonSerialize(OutFile, Export)
=============================================================================
