---- MODULE LoaderMC ----
EXTENDS Loader
OutFileC == "loader_cases.json"
====
