---------------------------- MODULE GrogBuildMC ----------------------------
(* Graph templates for GrogBuild.tla (one set of constant definitions per template; chosen in the .cfg). *)
EXTENDS GrogBuild

NameLess(n, m) == n = "a1" /\ m = "a2"

\* chain a <- b <- c (b reads a's file output, c reads b's)
ChainT == {"a", "b", "c"}
ChainOrder == <<"a", "b", "c">>
ChainDeps == [t \in ChainT |-> CASE t = "a" -> {} [] t = "b" -> {"a"} [] t = "c" -> {"b"}]
ChainKind == [t \in ChainT |-> "file"]
ChainFiles == [t \in ChainT |-> {t \o "1"}]
NoAliases == {}
NoAliasMenu == <<>>

\* diamond a <- {b, c} <- d; c and d have directory outputs (so a directory output has a dependant), b writes into a sub-directory
DiaT == {"a", "b", "c", "d"}
DiaOrder == <<"a", "b", "c", "d">>
DiaDeps == [t \in DiaT |-> CASE t = "a" -> {} [] t = "b" -> {"a"} [] t = "c" -> {"a"} [] t = "d" -> {"b", "c"}]
DiaKind == [t \in DiaT |-> CASE t = "b" -> "sub" [] t = "c" -> "dir" [] t = "d" -> "dir" [] OTHER -> "file"]
DiaFiles == [t \in DiaT |-> IF t = "a" THEN {"a1", "a2"} ELSE {t \o "1"}]

\* alias hop: a, b sources; x = alias -> a | b; c depends on x; g has glob inputs
AliT == {"a", "b", "c", "g"}
AliOrder == <<"a", "b", "g", "c">>
AliAliases == {"x"}
AliMenu == [y \in {"x"} |-> {"a", "b"}]
AliDeps == [t \in AliT |-> CASE t = "c" -> {"x", "g"} [] OTHER -> {}]
AliKind == [t \in AliT |-> "file"]
AliFiles == [t \in AliT |-> IF t = "g" THEN {"g1", "g2"} ELSE {t \o "1"}]

\* check targets: k has only an output check (no inputs/outputs), m has an output and a check, n depends on both
ChkT == {"k", "m", "n"}
ChkOrder == <<"k", "m", "n">>
ChkDeps == [t \in ChkT |-> IF t = "n" THEN {"k", "m"} ELSE {}]
ChkKind == [t \in ChkT |-> IF t = "k" THEN "none" ELSE "file"]
ChkFiles == [t \in ChkT |-> IF t = "k" THEN {} ELSE {t \o "1"}]

\* pair: p declares two file outputs, one per input file (output i is a function of input i, so exchanging the inputs
\* exchanges the outputs: same set of contents, different pairing); q reads p and declares nothing but a bin_output, r reads q
PairT == {"p", "q", "r"}
PairOrder == <<"p", "q", "r">>
PairDeps == [t \in PairT |-> CASE t = "p" -> {} [] t = "q" -> {"p"} [] t = "r" -> {"q"}]
PairKind == [t \in PairT |-> CASE t = "p" -> "pair" [] t = "q" -> "bin" [] OTHER -> "file"]     \* q's only output is a bin_output
PairFiles == [t \in PairT |-> IF t = "p" THEN {"a1", "a2"} ELSE {t \o "1"}]
=============================================================================
