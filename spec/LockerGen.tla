---- MODULE LockerGen ----
(* Behaviour generator for binding B2 of C10: Locker.tla's own steps with a history variable; each generated schedule
   (process, file-system call | crash) is stepped through real OS processes running the repository's Lock/Unlock. *)
EXTENDS LockerMC, Json
VARIABLE hist
GInit == Init /\ hist = << [init |-> IF path = 0 THEN "nofile" ELSE content[1]] >>
Act(p) == CASE Open(p) -> "lock.open" [] Flock(p) -> "lock.flock" [] Verify(p) -> "lock.verify" [] Write(p) -> "lock.write"
            [] Read(p) -> "lock.read" [] Sleep(p) -> "lock.sleep" [] ExitCS(p) -> "cs" [] UnlockRemove(p) -> "unlock.remove"
            [] UnlockClose(p) -> "unlock.close" [] OTHER -> "?"
GNext == \E p \in Procs :
           \/ Step(p) /\ hist' = Append(hist, [p |-> p, a |-> Act(p), holders |-> {q \in Procs : pc'[q] = "held"}, file |-> path' # 0,
                                                  writer |-> IF path' = 0 THEN "" ELSE IF content'[path'] \in Procs THEN content'[path'] ELSE "init",
                                                  pcs |-> pc'])
           \/ Crash(p) /\ hist' = Append(hist, [p |-> p, a |-> "crash", holders |-> {q \in Procs : pc'[q] = "held"}, file |-> path' # 0,
                                                  writer |-> IF path' = 0 THEN "" ELSE IF content'[path'] \in Procs THEN content'[path'] ELSE "init",
                                                  pcs |-> pc'])
GSpec == GInit /\ [][GNext]_<<vars, hist>>
Emit == Terminal => PrintT(<<"TRACEJSON", ToJson(hist)>>)

\* coverage goals: TLC (breadth-first, so the shortest schedule) is asked for a schedule whose last step is a given branch
CONSTANT Goal
Last == hist[Len(hist)]
GoalPred ==
  Len(hist) > 1 /\
  CASE Goal = "verify-fails" -> Last.a = "lock.verify" /\ pc[Last.p] = "start"
    [] Goal = "verify-sees-other-file" -> Last.a = "lock.verify" /\ pc[Last.p] = "start" /\ path # 0
    [] Goal = "flock-blocked" -> Last.a = "lock.flock" /\ pc[Last.p] = "read"
    [] Goal = "acquire-after-holder-crash" -> Last.a = "lock.write" /\ \E q \in Procs : pc[q] = "crashed" /\ \E i \in 2..(Len(hist) - 1) : hist[i].p = q /\ hist[i].a = "lock.write"
    [] Goal = "crash-between-flock-and-write" -> Last.a = "crash" /\ \E i \in 2..(Len(hist) - 1) : hist[i].p = Last.p /\ hist[i].a = "lock.flock" /\ i = Len(hist) - 1
    [] Goal = "two-inodes-open" -> \E p, q \in Procs : fd[p] # 0 /\ fd[q] # 0 /\ fd[p] # fd[q]
    [] Goal = "second-acquires-after-unlock" -> Last.a = "lock.write" /\ \E q \in Procs : pc[q] = "done"
    [] Goal = "waiter-sees-unlinked-file" -> Last.a = "lock.flock" /\ pc[Last.p] = "verify" /\ path # fd[Last.p]
    [] OTHER -> FALSE
GoalBound == Len(hist) <= 16      \* state constraint of the goal searches: unreachable goals end quickly
GoalInv == GoalPred => (PrintT(<<"TRACEJSON", ToJson(hist)>>) /\ FALSE)

====
