-------------------------- MODULE CacheOrderTrace --------------------------
(* Trace validation for C07 / C08: the sequence of entries becoming visible in a store (renames into cache/cas and
   cache/target recorded by strace for the local cache; Put calls recorded by the fake remote for C08) must be a behaviour in
   which ResultClosure holds in every state: a target result becomes visible only after every blob it references
   (through directory trees) is visible.  Many traces are concatenated. *)
EXTENDS Naturals, Sequences, FiniteSets, TLC, Json

CONSTANT TraceFile
Traces == JsonDeserialize(TraceFile)
VARIABLES ti, l, blobs, results, broken
vars == <<ti, l, blobs, results, broken>>
ToSet(s) == {s[i] : i \in DOMAIN s}
Init == ti = 1 /\ l = 1 /\ blobs = {} /\ results = {} /\ broken = {}
Ev == Traces[ti].ev[l]
Step == /\ ti <= Len(Traces) /\ l <= Len(Traces[ti].ev)
        /\ IF Ev.kind = "blob"
             THEN blobs' = blobs \cup {Ev.name} /\ UNCHANGED <<results, broken>>
             ELSE /\ results' = results \cup {Ev.name}
                  /\ broken' = IF ToSet(Ev.refs) \subseteq blobs THEN broken ELSE broken \cup {<<ti, l, Ev.name>>}
                  /\ UNCHANGED blobs
        /\ l' = l + 1 /\ ti' = ti
NextTrace == /\ ti <= Len(Traces) /\ l = Len(Traces[ti].ev) + 1
             /\ ti' = ti + 1 /\ l' = 1 /\ blobs' = ToSet(IF ti + 1 <= Len(Traces) THEN Traces[ti + 1].pre ELSE <<>>) /\ results' = {} /\ broken' = broken
Next == Step \/ NextTrace
Spec == ti = 1 /\ l = 1 /\ blobs = ToSet(Traces[1].pre) /\ results = {} /\ broken = {} /\ [][Next]_vars
\* diagnostics instead of a halting invariant, so that every trace is checked
ResultClosure == broken = {} \/ PrintT(<<"BROKEN", broken>>)
Finished == ti = Len(Traces) + 1
Accepted == TLCGet("stats").diameter >= 1
=============================================================================
