---- MODULE KeyEncodingMC ----
EXTENDS KeyEncoding
OutFileC == "key_states.json"
NoOutC == ""
OutSetsQ == { {}, {"o"}, {"o", "p"}, {"o,p"} }
DepSetsQ == { {}, {"h1"}, {"k", "w"}, {"file::o", "file::p"} }   \* {"k","w"} is also the two-element set for order independence
\* dependency hashes are opaque strings: two menus reuse the strings of a neighbouring list (fingerprint key/value, output
\* definitions), so that an element sequence moving from one list into the next one across an empty list is in the universe
DepSetsS == { {}, {"h1"}, {"k", "w"}, {"file::o", "file::p"} }
DeclSetsS == { {"a", "b"}, {"a,b"}, {"a", "b", "a,b"} }
DeclSetsQ == { {"a"}, {"a", "b"}, {"a,b"}, {"a", "a,b"}, {"a", "b", "a,b"} }
OutSetsS == { {}, {"o", "p"}, {"o,p"} }
====
