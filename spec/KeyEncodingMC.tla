---- MODULE KeyEncodingMC ----
EXTENDS KeyEncoding
OutFileC == "key_states.json"
NoOutC == ""
OutSetsQ == { {}, {"o"}, {"o", "p"}, {"o,p"} }
DepSetsQ == { {}, {"h1"}, {"h1", "h2"} }
DepSetsS == { {}, {"h1"} }
DeclSetsS == { {"a", "b"}, {"a,b"}, {"a", "b", "a,b"} }
DeclSetsQ == { {"a"}, {"a", "b"}, {"a,b"}, {"a", "a,b"}, {"a", "b", "a,b"} }
OutSetsS == { {}, {"o", "p"}, {"o,p"} }
====
