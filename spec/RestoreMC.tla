---- MODULE RestoreMC ----
EXTENDS Restore
OutFileC == "restore_cases.json"
====
