------------------------------ MODULE Executor ------------------------------
(* The contract of C03 / C05 without goroutines, channels, maps or flags: what a dependency-ordered, bounded-parallel,
   stoppable executor is.  Walker.tla (the implementation-shaped specification that the real walker and pool are validated
   against) refines this module under the mapping given at its end; TLC checks the refinement for every DAG it enumerates.

   A node is waiting, running (its command was started), refused (its task started after the stop: no command), ok, fail or
   dropped (started but killed / refused after the stop).  At most XWorkers tasks at a time; a task starts only when every
   dependency is ok; after the stop no command starts; a failure is only possible for nodes that can fail. *)
EXTENDS Naturals, FiniteSets

CONSTANT XNodes
VARIABLES XDeps, XSelected, XWorkers, XCanFail, XFailFast,     \* the configuration (never changes)
          state, stopped
xcfg == <<XDeps, XSelected, XWorkers, XCanFail, XFailFast>>
xvars == <<xcfg, state, stopped>>

Busy == {n \in XNodes : state[n] \in {"running", "refused"}}
Init == state = [n \in XNodes |-> "waiting"] /\ stopped = FALSE

Start(n) == /\ state[n] = "waiting" /\ n \in XSelected
            /\ \A d \in XDeps[n] : state[d] = "ok"
            /\ Cardinality(Busy) < XWorkers
            /\ state' = [state EXCEPT ![n] = IF stopped THEN "refused" ELSE "running"]
            /\ UNCHANGED <<xcfg, stopped>>
Succeed(n) == state[n] = "running" /\ state' = [state EXCEPT ![n] = "ok"] /\ UNCHANGED <<xcfg, stopped>>
Fail(n) == state[n] = "running" /\ n \in XCanFail /\ state' = [state EXCEPT ![n] = "fail"] /\ UNCHANGED <<xcfg, stopped>>
\* the stop is under way: decided (fail-fast: from the first failure on) or already in force
StopUnderWay == stopped \/ (XFailFast /\ \E m \in XNodes : state[m] = "fail")
\* a running command is killed, a refused task gives up: only once the stop is under way
Drop(n) == /\ state[n] \in {"running", "refused"} /\ StopUnderWay
           /\ state' = [state EXCEPT ![n] = "dropped"] /\ UNCHANGED <<xcfg, stopped>>
\* once the stop is under way a waiting node may be turned away by the closed pool: recorded as a failure, it never ran
Reject(n) == state[n] = "waiting" /\ StopUnderWay /\ state' = [state EXCEPT ![n] = "fail"] /\ UNCHANGED <<xcfg, stopped>>
Stop == ~stopped /\ stopped' = TRUE /\ UNCHANGED <<xcfg, state>>
Next == (\E n \in XNodes : Start(n) \/ Succeed(n) \/ Fail(n) \/ Drop(n) \/ Reject(n)) \/ Stop
Spec == Init /\ [][Next]_xvars

\* the contract, as invariants of this module
XDepsFirst == \A n \in XNodes : state[n] \in {"running", "ok", "fail", "dropped", "refused"} /\ state[n] # "fail" =>
                  \A d \in XDeps[n] : state[d] = "ok"
XBound == Cardinality(Busy) <= XWorkers
XNoCommandAfterStop == [][\A n \in XNodes : (state[n] = "waiting" /\ state'[n] = "running") => ~stopped]_xvars
XOnlyFallibleFail == \A n \in XNodes : state[n] = "fail" => (n \in XCanFail \/ StopUnderWay)
=============================================================================
