---------------------------- MODULE WalkerTrace ----------------------------
(* Trace validation for Walker.tla: every recorded execution of the real walker + pool (harness/walkdrv)
   must be a behaviour of the specification, with every invariant evaluated in every state along it.
   Many traces are concatenated; TraceReset loads the next trace's configuration. *)
EXTENDS Walker, Json, TLCExt

CONSTANT TraceFile
Traces == JsonDeserialize(TraceFile)

VARIABLES ti, l
tvars == <<vars, ti, l>>

ToSet(s) == {s[i] : i \in DOMAIN s}
CfgOf(i) == Traces[i].cfg
DepsOf(i) == [n \in Nodes |-> IF n <= Len(CfgOf(i).deps) THEN ToSet(CfgOf(i).deps[n]) ELSE {}]

LoadCfg(i) ==
  /\ Deps' = DepsOf(i)
  /\ Selected' = ToSet(CfgOf(i).selected)
  /\ FailFast' = CfgOf(i).failfast
  /\ NumWorkers' = CfgOf(i).workers
  /\ CanFail' = ToSet(CfgOf(i).canfail)

TInit ==
  /\ ti = 1 /\ l = 1
  /\ Deps = DepsOf(1) /\ Selected = ToSet(CfgOf(1).selected) /\ FailFast = CfgOf(1).failfast
  /\ NumWorkers = CfgOf(1).workers /\ CanFail = ToSet(CfgOf(1).canfail)
  /\ DynInit

Ev == Traces[ti].ev[l]
Is(name) == ti <= Len(Traces) /\ l <= Len(Traces[ti].ev) /\ Ev.a = name
Adv == l' = l + 1 /\ ti' = ti /\ UNCHANGED cfgvars
Stutter == UNCHANGED dynvars

Reset ==
  /\ walk' = "registering" /\ registered' = {} /\ rootStarted' = {} /\ pendingStart' = {} /\ cancelCause' = {}
  /\ pc' = [n \in Nodes |-> "none"] /\ ready' = [n \in Nodes |-> 0] /\ cancelled' = [n \in Nodes |-> FALSE]
  /\ completion' = [n \in Nodes |-> "none"] /\ result' = [n \in Nodes |-> "none"]
  /\ ffTriggered' = FALSE /\ ffCancelled' = FALSE /\ ctxCancelled' = FALSE /\ extCancelled' = FALSE /\ poolClosed' = FALSE
  /\ slot' = [w \in Workers |-> 0] /\ everCalled' = {} /\ lost' = {} /\ raced' = FALSE /\ retSize' = 0 /\ snapped' = FALSE

NextTrace ==
  /\ ti' = ti + 1 /\ l' = 1
  /\ IF ti + 1 <= Len(Traces) THEN LoadCfg(ti + 1) ELSE UNCHANGED cfgvars
  /\ Reset

TCore ==
  \/ Is("WalkRegister") /\ WalkRegister(Ev.n) /\ Adv
  \/ Is("WalkRegistered") /\ WalkRegistered /\ Adv
  \/ Is("WalkStartRoot") /\ Ev.f /\ WalkStartRoot(Ev.n) /\ Adv
  \/ Is("StartLookup") /\ StartLookup(Ev.n, Ev.f) /\ Adv
  \/ Is("CancelLookup") /\ CancelLookup(Ev.n, Ev.f) /\ Adv
  \/ Is("NodeTook") /\ NodeTook(Ev.n, Ev.r) /\ Adv
  \/ Is("TaskStart") /\ TaskStart(Ev.n, Ev.w, Ev.f) /\ Adv
  \/ Is("TaskEnd") /\ TaskEnd(Ev.n, Ev.r) /\ Adv
  \/ Is("CbReturn") /\ CbReturn(Ev.n, Ev.r) /\ Adv
  \/ Is("NodeComplete") /\ NodeComplete(Ev.n, Ev.f, Ev.g) /\ Adv
  \/ Is("FFCancel") /\ FFCancel /\ Adv
  \/ Is("NodeCanceled") /\ NodeCanceled(Ev.n) /\ Adv
  \/ Is("ExtCancel") /\ ExtCancel /\ Adv
  \/ Is("PoolShutdown") /\ PoolShutdown /\ Adv
  \/ Is("WalkReturn") /\ Ev.r = "done" /\ WalkReturnDone /\ Adv
  \/ Is("WalkReturn") /\ Ev.r = "ctx" /\ WalkReturnCtx /\ Adv
  \/ Is("Snapshot") /\ Snapshot(Ev.w) /\ Adv
  \* the caller's view of the returned completion map: its size at return ...
  \/ Is("WalkReturned") /\ Returned /\ (walk = "returned_ctx" => snapped) /\ Ev.w = retSize /\ Stutter /\ Adv
  \* ... and when everything has settled: the returned map must not have been written to behind the caller's back
  \/ Is("End") /\ (Returned => Ev.w = retSize) /\ Stutter /\ Adv
  \/ ti <= Len(Traces) /\ l = Len(Traces[ti].ev) + 1 /\ NextTrace          \* trace consumed: load the next one

\* a trace the specification cannot follow any further is reported (see Why) and skipped, so that the remaining traces are still checked
Stuck == ti <= Len(Traces) /\ ~ENABLED TCore
TNext == TCore \/ (Stuck /\ NextTrace)
TSpec == TInit /\ [][TNext]_tvars

(* why the event at the stuck position is not a step of the specification: the failed guard conjuncts *)
S(c, name) == IF c THEN {name} ELSE {}
Why ==
  LET n == Ev.n IN
  CASE Ev.a = "TaskStart" ->
         S(pc[n] # "called", "task-started-but-callback-not-entered") \cup S(Ev.w \notin 1..NumWorkers, "worker-id-above-num_workers")
         \cup S(Ev.w \in Workers /\ slot[Ev.w] # 0, "worker-slot-busy")
         \cup S(~Ev.f /\ ctxCancelled, "command-started-after-cancel") \cup S(Ev.f /\ ~(ctxCancelled \/ ffTriggered), "context-cancelled-without-cause")
    [] Ev.a = "NodeTook" ->
         S(pc[n] # "parked", "node-taken-twice") \cup S(Ev.r = "ready" /\ ready[n] = 0, "ready-without-start")
         \cup S(Ev.r = "cancel" /\ ~cancelled[n], "cancel-without-cause")
    [] Ev.a = "StartLookup" -> S(n \notin pendingStart, "started-before-all-dependencies-done") \cup S(n \in pendingStart, "lookup-result-mismatch")
    [] Ev.a = "WalkStartRoot" -> S(~Ev.f, "root-entry-missing") \cup S(Deps[n] # {}, "non-root-started-by-walk") \cup S(n \in rootStarted, "root-started-twice")
    [] Ev.a = "CancelLookup" -> S(n \notin cancelCause, "cancelled-without-failed-ancestor") \cup S(n \in cancelCause, "lookup-result-mismatch")
    [] Ev.a = "TaskEnd" -> {"harness-task-end-mismatch"}
    [] Ev.a = "CbReturn" -> S(pc[n] = "taskdone" /\ Ev.r # result[n], "callback-result-differs-from-task") \cup S(pc[n] = "called" /\ ~poolClosed, "job-refused-by-open-pool")
                            \cup S(pc[n] \notin {"taskdone", "called"}, "callback-returned-twice")
    [] Ev.a = "NodeComplete" -> S(pc[n] # "returned", "completion-without-callback-return") \cup S(pc[n] = "returned" /\ result[n] = "canceled", "cancelled-target-recorded")
                                \cup S(pc[n] = "returned" /\ result[n] \in {"ok", "fail"} /\ (Ev.f # (result[n] = "ok")), "failure-recorded-as-success-or-vice-versa")
                                \cup S(Ev.g # ffTriggered, "failfast-flag-mismatch")
    [] Ev.a = "FFCancel" -> {"failfast-cancel-without-failure"}
    [] Ev.a = "NodeCanceled" -> {"failure-swallowed-as-cancellation"}
    [] Ev.a = "WalkReturn" -> S(Ev.r = "done", "returned-before-all-nodes-finished") \cup S(Ev.r = "ctx", "returned-cancelled-without-cancel")
    [] Ev.a = "Snapshot" -> {"returned-map-size-differs-from-completions"}
    [] Ev.a = "WalkReturned" -> {"returned-map-size-differs-from-completions"}
    [] Ev.a = "End" -> {"returned-map-written-after-return"}
    [] Ev.a = "PoolShutdown" -> {"pool-closed-while-walk-running"}
    [] OTHER -> {"unexpected-event"}

Invs == << <<"TypeOK", TypeOK>>, <<"DepsFirst", DepsFirst>>, <<"WorkerBound", WorkerBound>>, <<"NoLostSignal", NoLostSignal>>,
           <<"NoRace", NoRace>>, <<"Resolved", Resolved>>, <<"KeepGoing", KeepGoing>>, <<"KeepGoingExact", KeepGoingExact>>, <<"NeverBelowFailure", NeverBelowFailure>>,
           <<"FailureRecorded", FailureRecorded>> >>
\* diagnostics instead of halting invariants: every invariant is evaluated in every state of every trace, each
\* failure is printed with its position, and validation continues with the remaining traces
Diag ==
  /\ \A i \in DOMAIN Invs : Invs[i][2] \/ PrintT(<<"INV", Invs[i][1], ti, l>>)
  /\ Stuck => PrintT(<<"WHY", ti, l, Ev.a, Why>>)

\* acceptance: every trace was visited (rejected ones are reported through WHY lines)
HighWater == TLCSet(1, IF ti > TLCGet(1) THEN ti ELSE TLCGet(1))
ASSUME TLCSet(1, 0)
Accepted == TLCGet(1) = Len(Traces) + 1
=============================================================================
