------------------------------ MODULE Traversal ------------------------------
(* C19 -- graph algorithms scale with nodes and edges, not with paths.  The specified traversal (descendants,
   ancestors, dependency closure of a selection, failure propagation, ancestor sets for conflict detection) keeps a
   visited set: every edge out of a reached node is examined exactly once.  TLC checks on every DAG up to N nodes
   and on ladders (layered complete bipartite graphs, exponentially many paths) that the number of edge
   examinations never exceeds |E| and that the visited set at the end is exactly the reachable set.
   The bound WorkBound(V, E) = E + V is what the binding holds the real operations to (work counters in the
   loops of GetDescendants / GetAncestors / selectAllAncestorsForBuild / getAncestorSet). *)
EXTENDS Naturals, FiniteSets, TLC

CONSTANTS N, Family   \* Family: "alldags" (every DAG over 1..N) or "ladders" (width 2, depth up to N \div 2)
Nodes == 1..N
LadderEdges(d) == {<<a, b>> \in Nodes \X Nodes : a <= 2 * d /\ b <= 2 * d /\ ((a + 1) \div 2) + 1 = (b + 1) \div 2}
EdgeSets == IF Family = "alldags" THEN SUBSET {<<a, b>> \in Nodes \X Nodes : a < b}
            ELSE {LadderEdges(d) : d \in 1..(N \div 2)}

VARIABLES edges, start, visited, examined, work
vars == <<edges, start, visited, examined, work>>
Init == /\ edges \in EdgeSets /\ start \in Nodes
        /\ visited = {} /\ examined = {} /\ work = 0
Reached == visited \cup {start}
Examine(e) == /\ e \in edges \ examined /\ e[1] \in Reached
              /\ examined' = examined \cup {e} /\ work' = work + 1
              /\ visited' = visited \cup {e[2]}
              /\ UNCHANGED <<edges, start>>
Finished == \A e \in edges : e[1] \in Reached => e \in examined
Next == (\E e \in edges : Examine(e)) \/ (Finished /\ UNCHANGED vars)
Spec == Init /\ [][Next]_vars

RECURSIVE ReachSet(_, _)
ReachSet(E, S) == LET nxt == S \cup {e[2] : e \in {x \in E : x[1] \in S}} IN IF nxt = S THEN S ELSE ReachSet(E, nxt)
WorkBound(v, e) == e + v
LinearWork == work <= Cardinality(edges)
ExactResult == Finished => visited = ReachSet(edges, {start}) \ ({start} \ {e[2] : e \in {x \in edges : x[1] \in ReachSet(edges, {start})}})
EachOnce == work = Cardinality(examined)
=============================================================================
