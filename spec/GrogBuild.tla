----------------------------- MODULE GrogBuild -----------------------------
(* Sources, workspace, cache and the per-target pipeline of `grog build`, over HISTORIES of edits,
   taints, workspace perturbations, cache faults and builds sharing one persistent cache
   (C01, C02, C05 follow-up builds, C13, C14, C15, C18 follow-up, C20 link).

   A build is one atomic step of this module: RunBuild folds the documented per-target rule
   (internal/execution/execute.go, output/registry.go, the output handlers) over the selected targets in
   topological order.  The interleaving of targets inside a build is the subject of Walker.tla; what this
   module fixes is WHAT each target must do (hit / execute / fail / skip, with which key, producing which
   value) as a function of the history -- the reference model C02 speaks of.

   Reference rules (read off the code; the binding replays TLC-generated histories into the real binary
   and compares executed sets, decisions, exit status, output values, taint markers after every step):
    1 key(t) = <<label, command, input (name,content) pairs, declared outputs, fingerprint, platform,
                 output hashes of the direct dependencies (aliases resolved)>>
    2 hit iff a result exists for key(t), t is not tainted, not no-cache, the cache is enabled and t's
      output checks pass
    3 hit, mode all: every output is restored unless already identical; a result without outputs or an
      irretrievable blob falls through to execution.  hit, mode minimal: nothing is materialised
    4 mode minimal: before t executes, the outputs of its direct dependencies are materialised from their
      results; an irretrievable dependency is re-run in place (after its own dependencies)
    5 execute: non-zero exit / timeout / missing declared output / failing check => t fails, no result.
      success: outputs stored then the result -- unless no-cache or cache disabled: a result WITHOUT
      outputs and a locally computed output hash (a different function) is written instead
    6 taint is consumed by a successful execution; descendants of a failed target are skipped *)
EXTENDS Naturals, Sequences, FiniteSets, TLC

CONSTANTS Targets,     \* target names (strings)
          Order,       \* a topological order of Targets (sequence)
          DeclDeps,    \* [Targets -> SUBSET (Targets \cup Aliases)] declared dependencies
          Aliases,     \* alias names
          AliasMenu,   \* [Aliases -> SUBSET Targets] what an alias may point to (must precede its users in Order)
          OutKind,     \* [Targets -> {"file", "sub", "dir", "pair", "none"}] ("pair" = two declared file outputs, "bin" = a bin_output only)
          InFiles,     \* [Targets -> set of input file names]
          GlobT,       \* targets whose inputs are declared by a glob (absent files are not inputs)
          CheckT,      \* targets with an output check on an external condition
          ToolT,       \* targets whose command relies on an undeclared tool that may break (ext[t] = TRUE: broken): the same
                       \* command, with the same cache key, then exits 0 without producing its declared output
          CmdMenu,     \* command versions EditCmd may choose from
          Acts,        \* enabled history actions
          Modes,       \* load_outputs modes builds may use
          SelMenu,     \* build selections: "ALL" or a target name
          ShiftFirst(_, _),  \* ShiftFirst(n, m): input name n sorts before m
          MaxSteps

VARIABLES src,       \* per target [cmd, fp, nc, outv]
          files,     \* per target: input name -> "c0" | "c1" | "absent"
          alias,     \* per alias: the target it points to
          platform,  \* "p0" | "p1"
          ws,        \* per target: value of the declared output in the workspace
          ext,       \* per check target: does the checked external condition hold
          results,   \* key -> [out, has, val]
          blobs,     \* values present in the CAS
          taint,     \* tainted targets
          steps,
          last,      \* observation of the last action (the last build's outcome)
          trail      \* summaries of the two actions before the last one (for the locality theorems)

vars == <<src, files, alias, platform, ws, ext, results, blobs, taint, steps, last, trail>>

Absent == <<"absent">>
Garbage == <<"garbage">>
ParentGone == <<"parentgone">>
NotDir == <<"notdir">>
IsValue(v) == v[1] = "v"
Stale(v) == <<"stale", v>>      \* a directory output with an extra entry

Resolve(a, d) == IF d \in Aliases THEN a[d] ELSE d
RDeps(a, t) == {Resolve(a, d) : d \in DeclDeps[t]}
RECURSIVE ClosureOf(_, _)
ClosureOf(a, t) == {t} \cup UNION {ClosureOf(a, d) : d \in RDeps(a, t)}
SelOf(a, s) == IF s = "ALL" THEN Targets ELSE ClosureOf(a, s)
RECURSIVE TransDeps(_, _)
TransDeps(a, t) == RDeps(a, t) \cup UNION {TransDeps(a, d) : d \in RDeps(a, t)}
RdepsStar(a, S) == {t \in Targets : \E s \in S : s \in TransDeps(a, t)}

DataDeps(a, t) == {d \in RDeps(a, t) : OutKind[d] # "none"}

InputsOf(f, t) == IF t \in GlobT THEN {<<n, f[t][n]>> : n \in {m \in InFiles[t] : f[t][m] # "absent"}}
                  ELSE {<<n, f[t][n]>> : n \in InFiles[t]}

Key(s, f, a, p, t, out) == <<t, s[t].cmd, InputsOf(f, t), s[t].outv, s[t].fp, p, [d \in RDeps(a, t) |-> out[d]]>>

\* the deterministic command semantics: what the command of t writes, given what it reads
Produces(s, f, a, t, w) ==
  IF s[t].cmd = "const" THEN <<"v", t, "const", s[t].outv>>
  ELSE <<"v", t, s[t].cmd, s[t].outv, InputsOf(f, t), [d \in DataDeps(a, t) |-> w[d]]>>

(* ------------------------------------------------------------------ one build *)
St0(w, r, b, tn, e) ==
  [ws |-> w, results |-> r, blobs |-> b, taint |-> tn, ext |-> e,
   out |-> [t \in Targets |-> <<"none">>], failed |-> {}, skipped |-> {}, exec |-> {}, twice |-> {},
   loaded |-> {}, dec |-> [t \in Targets |-> "unselected"], why |-> [t \in Targets |-> {}]]

HasOutputs(t) == OutKind[t] # "none"

\* can the outputs recorded in R be put into the workspace (rule 3)
Loadable(st, t, R) ==
  IF ~HasOutputs(t) THEN TRUE
  ELSE R.has /\ (st.ws[t] = R.val \/ R.val \in st.blobs)

\* the execution of t's command and what follows (rule 5); st.ws of the data dependencies must be current
ExecTarget(s, f, a, p, cacheOn, st, t, k, why) ==
  LET c == s[t].cmd
      depsOK == \A d \in DataDeps(a, t) : IsValue(st.ws[d])
      st1 == [st EXCEPT !.exec = @ \cup {t}, !.twice = IF t \in st.exec THEN @ \cup {t} ELSE @, !.why[t] = why]
  IN
  IF c \in {"fail", "slow"} \/ ~depsOK
    THEN [st1 EXCEPT !.failed = @ \cup {t}, !.dec[t] = "exec-fail"]
  ELSE IF (c = "omit" \/ (t \in ToolT /\ st.ext[t])) /\ HasOutputs(t)
    THEN [st1 EXCEPT !.failed = @ \cup {t}, !.dec[t] = "exec-fail", !.ws[t] = Absent]
  ELSE
    \* "noest" leaves the checked condition as it is, "unest" destroys it, every other command establishes it
    LET extAfter == IF t \in CheckT THEN [st.ext EXCEPT ![t] = IF c = "unest" THEN FALSE ELSE (c # "noest") \/ @] ELSE st.ext IN
    IF t \in CheckT /\ ~extAfter[t]
      THEN [st1 EXCEPT !.failed = @ \cup {t}, !.dec[t] = "exec-fail", !.ext = extAfter,
                       !.ws[t] = IF HasOutputs(t) THEN Produces(s, f, a, t, st.ws) ELSE @]
    ELSE
      LET v == IF HasOutputs(t) THEN Produces(s, f, a, t, st.ws) ELSE Absent
          uncached == s[t].nc \/ ~cacheOn
          r == IF uncached
                 THEN [out |-> IF HasOutputs(t) THEN <<"local", v>> ELSE <<"localnone">>, has |-> FALSE, val |-> Absent]
                 ELSE [out |-> IF HasOutputs(t) THEN <<"stored", s[t].outv, v>> ELSE <<"key", k>>, has |-> TRUE, val |-> v]
      IN [st1 EXCEPT !.ws[t] = v, !.out[t] = r.out, !.ext = extAfter,
                     !.results = (k :> r) @@ st.results,
                     !.blobs = IF uncached \/ ~HasOutputs(t) THEN @ ELSE @ \cup {v},
                     !.taint = @ \ {t}, !.loaded = @ \cup {t}, !.dec[t] = "exec-ok"]

\* rule 4: materialise the outputs of d (a direct dependency of something that is about to execute)
RECURSIVE EnsureLoaded(_, _, _, _, _, _, _)
RECURSIVE EnsureAll(_, _, _, _, _, _, _)
EnsureLoaded(s, f, a, p, cacheOn, st, d) ==
  IF d \in st.loaded \/ ~HasOutputs(d) THEN st
  ELSE LET k == Key(s, f, a, p, d, st.out)
           R == st.results[k] IN
       IF k \in DOMAIN st.results /\ Loadable(st, d, R)
         THEN [st EXCEPT !.ws[d] = R.val, !.loaded = @ \cup {d}]
         ELSE LET st2 == EnsureAll(s, f, a, p, cacheOn, st, RDeps(a, d)) IN
              ExecTarget(s, f, a, p, cacheOn, st2, d, k, {"rerun-for-dependant"})
EnsureAll(s, f, a, p, cacheOn, st, ds) ==
  IF ds = {} THEN st
  ELSE LET d == CHOOSE x \in ds : \A y \in ds : \E i, j \in 1..Len(Order) : Order[i] = x /\ Order[j] = y /\ i <= j IN
       EnsureAll(s, f, a, p, cacheOn, EnsureLoaded(s, f, a, p, cacheOn, st, d), ds \ {d})

RECURSIVE RunBuild(_, _, _, _, _, _, _, _, _)
RunBuild(i, st, s, f, a, p, sel, cacheOn, mode) ==
  IF i > Len(Order) THEN st ELSE
  LET t == Order[i] IN
  IF t \notin sel THEN RunBuild(i + 1, st, s, f, a, p, sel, cacheOn, mode) ELSE
  IF \E d \in RDeps(a, t) : d \in st.failed \/ d \in st.skipped
    THEN RunBuild(i + 1, [st EXCEPT !.skipped = @ \cup {t}, !.dec[t] = "skipped"], s, f, a, p, sel, cacheOn, mode) ELSE
  LET k == Key(s, f, a, p, t, st.out)
      has == k \in DOMAIN st.results
      checkOK == t \notin CheckT \/ st.ext[t]
      hitcond == has /\ t \notin st.taint /\ ~s[t].nc /\ cacheOn /\ checkOK
      why == (IF ~has THEN {"no-result"} ELSE {}) \cup (IF t \in st.taint THEN {"tainted"} ELSE {})
             \cup (IF s[t].nc THEN {"no-cache"} ELSE {}) \cup (IF ~cacheOn THEN {"cache-disabled"} ELSE {})
             \cup (IF ~checkOK THEN {"failing-check"} ELSE {})
  IN
  IF hitcond /\ mode = "minimal"
    THEN RunBuild(i + 1, [st EXCEPT !.out[t] = st.results[k].out, !.dec[t] = "hit"], s, f, a, p, sel, cacheOn, mode)
  ELSE IF hitcond /\ Loadable(st, t, st.results[k])
    THEN RunBuild(i + 1, [st EXCEPT !.ws[t] = IF HasOutputs(t) THEN st.results[k].val ELSE @, !.out[t] = st.results[k].out,
                                   !.loaded = @ \cup {t}, !.dec[t] = "hit"], s, f, a, p, sel, cacheOn, mode)
  ELSE
    LET st2 == IF mode = "minimal" THEN EnsureAll(s, f, a, p, cacheOn, st, RDeps(a, t)) ELSE st
        why2 == IF hitcond THEN {"irretrievable"} ELSE why IN
    RunBuild(i + 1, ExecTarget(s, f, a, p, cacheOn, st2, t, k, why2), s, f, a, p, sel, cacheOn, mode)

NoWs == [t \in Targets |-> Absent]
NoExt == [t \in Targets |-> FALSE]
Build0(s, f, a, p, w, r, b, tn, e, sel, cacheOn, mode) == RunBuild(1, St0(w, r, b, tn, e), s, f, a, p, sel, cacheOn, mode)
\* the from-scratch build of the current sources: empty cache, no prior outputs, same external world
Clean(s, f, a, p, e, sel) == Build0(s, f, a, p, NoWs, <<>>, {}, {}, e, sel, TRUE, "all")

(* ------------------------------------------------------------------ histories *)
NoBuild == [kind |-> "none"]

Init ==
  /\ src = [t \in Targets |-> [cmd |-> "copy", fp |-> "f0", nc |-> FALSE, outv |-> "o0"]]
  /\ files = [t \in Targets |-> [n \in InFiles[t] |->
                IF Cardinality(InFiles[t]) = 2 /\ t \notin GlobT
                  THEN (IF \E m \in InFiles[t] : ShiftFirst(n, m) THEN "sAB" ELSE "sC")
                  ELSE "c0"]]
  /\ alias \in [Aliases -> Targets] /\ \A x \in Aliases : alias[x] \in AliasMenu[x]
  /\ platform = "p0"
  /\ ws = NoWs /\ ext = NoExt /\ results = <<>> /\ blobs = {} /\ taint = {}
  /\ steps = 0 /\ last = NoBuild /\ trail = <<>>

Summary(l) == [kind |-> l.kind, t |-> IF l.kind \in {"edit", "taint", "perturb", "breakext", "breaktool", "dropblob"} THEN l.t ELSE "",
               full |-> l.kind = "build" /\ l.ok /\ l.cacheOn /\ l.mode = "all" /\ l.sel = Targets]
Step == /\ steps < MaxSteps /\ steps' = steps + 1
        /\ trail' = IF Len(trail) < 2 THEN Append(trail, Summary(last)) ELSE <<trail[2], Summary(last)>>
Edited(t) == last' = [kind |-> "edit", t |-> t]

EditInput(t, n, c) ==
  /\ "EditInput" \in Acts /\ Step /\ n \in InFiles[t] /\ c # files[t][n]
  \* a file disappears: under a glob it stops being an input; a literally declared input stays declared ("EditAbsent": the
  \* loader accepts a declared input that does not exist, the hashing skips its content)
  /\ (c = "absent" => (t \in GlobT \/ "EditAbsent" \in Acts))
  /\ files' = [files EXCEPT ![t][n] = c] /\ Edited(t)
  /\ UNCHANGED <<src, alias, platform, ws, ext, results, blobs, taint>>
\* bytes move from the end of the first input file (in name order) to the start of the second; the concatenation is unchanged
EditShift(t) ==
  /\ "EditShift" \in Acts /\ Step /\ Cardinality(InFiles[t]) = 2 /\ t \notin GlobT
  /\ LET pair == CHOOSE p \in InFiles[t] \X InFiles[t] : p[1] # p[2] /\ ShiftFirst(p[1], p[2]) IN
     files' = [files EXCEPT ![t] = IF @[pair[1]] = "sAB" THEN (pair[1] :> "sA") @@ (pair[2] :> "sBC")
                                                          ELSE (pair[1] :> "sAB") @@ (pair[2] :> "sC")]
  /\ Edited(t)
  /\ UNCHANGED <<src, alias, platform, ws, ext, results, blobs, taint>>
\* the contents of the two input files are exchanged (same names, same set of contents, different pairing)
EditSwap(t) ==
  /\ "EditSwap" \in Acts /\ Step /\ Cardinality(InFiles[t]) = 2 /\ t \notin GlobT
  /\ LET pair == CHOOSE p \in InFiles[t] \X InFiles[t] : p[1] # p[2] /\ ShiftFirst(p[1], p[2]) IN
     /\ files[t][pair[1]] # files[t][pair[2]]
     /\ files' = [files EXCEPT ![t] = (pair[1] :> files[t][pair[2]]) @@ (pair[2] :> files[t][pair[1]])]
  /\ Edited(t)
  /\ UNCHANGED <<src, alias, platform, ws, ext, results, blobs, taint>>
EditCmd(t, c) ==
  /\ "EditCmd" \in Acts /\ Step /\ c \in CmdMenu /\ c # src[t].cmd /\ (c \in {"noest", "unest"} => t \in CheckT)
  /\ src' = [src EXCEPT ![t].cmd = c] /\ Edited(t)
  /\ UNCHANGED <<files, alias, platform, ws, ext, results, blobs, taint>>
EditFingerprint(t) ==
  /\ "EditFingerprint" \in Acts /\ Step
  /\ src' = [src EXCEPT ![t].fp = IF @ = "f0" THEN "f1" ELSE "f0"] /\ Edited(t)
  /\ UNCHANGED <<files, alias, platform, ws, ext, results, blobs, taint>>
\* renaming the declared output of a target nobody reads from
EditOutputs(t) ==
  /\ "EditOutputs" \in Acts /\ Step /\ HasOutputs(t)
  /\ \A u \in Targets : t \notin DeclDeps[u]
  /\ \A x \in Aliases : t \notin AliasMenu[x]
  /\ src' = [src EXCEPT ![t].outv = IF @ = "o0" THEN "o1" ELSE "o0"] /\ Edited(t)
  /\ ws' = [ws EXCEPT ![t] = Absent]      \* the newly declared path; the harness removes what sits there
  /\ UNCHANGED <<files, alias, platform, ext, results, blobs, taint>>
ToggleNoCache(t) ==
  /\ "ToggleNoCache" \in Acts /\ Step
  /\ src' = [src EXCEPT ![t].nc = ~@] /\ Edited(t)
  /\ UNCHANGED <<files, alias, platform, ws, ext, results, blobs, taint>>
Retarget(x, t) ==
  /\ "Retarget" \in Acts /\ Step /\ t \in AliasMenu[x] /\ t # alias[x]
  /\ alias' = [alias EXCEPT ![x] = t] /\ last' = [kind |-> "edit", t |-> x]
  /\ UNCHANGED <<src, files, platform, ws, ext, results, blobs, taint>>
ChangePlatform ==
  /\ "ChangePlatform" \in Acts /\ Step
  /\ platform' = (IF platform = "p0" THEN "p1" ELSE "p0")
  /\ last' = [kind |-> "platform"]
  /\ UNCHANGED <<src, files, alias, ws, ext, results, blobs, taint>>
Taint(t) ==
  /\ "Taint" \in Acts /\ Step /\ t \notin taint
  /\ taint' = taint \cup {t} /\ last' = [kind |-> "taint", t |-> t]
  /\ UNCHANGED <<src, files, alias, platform, ws, ext, results, blobs>>
\* `grog taint //...`: a pattern taints every target it matches
TaintAll ==
  /\ "Taint" \in Acts /\ Step /\ taint # Targets
  /\ taint' = Targets /\ last' = [kind |-> "taint", t |-> "ALL"]
  /\ UNCHANGED <<src, files, alias, platform, ws, ext, results, blobs>>
\* the workspace is checked out at another absolute location, the cache is carried over: nothing of the abstract state changes
Relocate ==
  /\ "Relocate" \in Acts /\ Step /\ last.kind # "relocate"
  /\ last' = [kind |-> "relocate"]
  /\ UNCHANGED <<src, files, alias, platform, ws, ext, results, blobs, taint>>
\* what sits at the output path changes behind grog's back
Perturb(t, how) ==
  /\ "Perturb" \in Acts /\ Step /\ HasOutputs(t) /\ IsValue(ws[t])
  /\ \/ how = "delete" /\ ws' = [ws EXCEPT ![t] = Absent]
     \/ how = "modify" /\ ws' = [ws EXCEPT ![t] = Garbage]
     \/ how = "parent" /\ OutKind[t] = "sub" /\ ws' = [ws EXCEPT ![t] = ParentGone]
     \/ how = "stale" /\ OutKind[t] = "dir" /\ ws' = [ws EXCEPT ![t] = Stale(@)]
     \/ how = "notdir" /\ OutKind[t] = "dir" /\ ws' = [ws EXCEPT ![t] = NotDir]
  /\ last' = [kind |-> "perturb", t |-> t]
  /\ UNCHANGED <<src, files, alias, platform, ext, results, blobs, taint>>
\* the checked external condition is destroyed
BreakExt(t) ==
  /\ "BreakExt" \in Acts /\ Step /\ t \in CheckT /\ ext[t]
  /\ ext' = [ext EXCEPT ![t] = FALSE] /\ last' = [kind |-> "breakext", t |-> t]
  /\ UNCHANGED <<src, files, alias, platform, ws, results, blobs, taint>>
\* the undeclared tool a command relies on breaks (nothing the cache key covers changes)
BreakTool(t) ==
  /\ "BreakTool" \in Acts /\ Step /\ t \in ToolT /\ ~ext[t]
  /\ ext' = [ext EXCEPT ![t] = TRUE] /\ last' = [kind |-> "breaktool", t |-> t]
  /\ UNCHANGED <<src, files, alias, platform, ws, results, blobs, taint>>
\* a blob disappears from the cache (the value currently recorded for t)
DropBlob(t) ==
  /\ "DropBlob" \in Acts /\ Step /\ HasOutputs(t) /\ IsValue(ws[t]) /\ ws[t] \in blobs
  /\ blobs' = blobs \ {ws[t]} /\ last' = [kind |-> "dropblob", t |-> t]
  /\ UNCHANGED <<src, files, alias, platform, ws, ext, results, taint>>

\* every stored target result becomes unreadable (the files are still there but do not decode): as good as gone
CorruptResults ==
  /\ "CorruptResults" \in Acts /\ Step /\ results # <<>>
  /\ results' = <<>> /\ last' = [kind |-> "corruptresults"]
  /\ UNCHANGED <<src, files, alias, platform, ws, ext, blobs, taint>>

Build(s, cacheOn, mode) ==
  /\ "Build" \in Acts /\ Step /\ s \in SelMenu /\ mode \in Modes
  /\ ~cacheOn => "BuildCacheOff" \in Acts
  /\ LET sel == SelOf(alias, s)
         r == Build0(src, files, alias, platform, ws, results, blobs, taint, ext, sel, cacheOn, mode)
         c == Clean(src, files, alias, platform, r.ext, sel) IN
     /\ ws' = r.ws /\ results' = r.results /\ blobs' = r.blobs /\ taint' = r.taint /\ ext' = r.ext
     /\ last' = [kind |-> "build", sel |-> sel, s |-> s, cacheOn |-> cacheOn, mode |-> mode,
                 exec |-> r.exec, twice |-> r.twice, ok |-> r.failed = {}, failed |-> r.failed, skipped |-> r.skipped,
                 dec |-> r.dec, why |-> r.why, loaded |-> r.loaded,
                 cleanws |-> c.ws, cleanok |-> c.failed = {}]
  /\ UNCHANGED <<src, files, alias, platform>>

Next ==
  \/ \E t \in Targets :
       \/ \E n \in InFiles[t], c \in {"c0", "c1", "absent"} : EditInput(t, n, c)
       \/ \E c \in CmdMenu : EditCmd(t, c)
       \/ BreakTool(t) \/ EditShift(t) \/ EditSwap(t) \/ EditFingerprint(t) \/ EditOutputs(t) \/ ToggleNoCache(t) \/ Taint(t) \/ BreakExt(t) \/ DropBlob(t)
       \/ \E how \in {"delete", "modify", "parent", "stale", "notdir"} : Perturb(t, how)
  \/ \E x \in Aliases, t \in Targets : Retarget(x, t)
  \/ ChangePlatform \/ Relocate \/ TaintAll \/ CorruptResults
  \/ \E s \in SelMenu, on \in BOOLEAN, m \in Modes : Build(s, on, m)

Spec == Init /\ [][Next]_vars

(* ------------------------------------------------------------------ properties (all about the last build) *)
IsBuild == last.kind = "build"
\* C01: after a successful default-mode build every declared output equals the from-scratch build's
CleanEq == (IsBuild /\ last.ok /\ last.mode = "all") =>
              /\ last.cleanok
              /\ \A t \in last.sel : HasOutputs(t) => ws[t] = last.cleanws[t]
\* C01: a hit is only ever served for an equal key -- by construction of `results`; what can go wrong is the key itself (C09)
\* C02: an immediate rebuild with no change executes nothing (no-cache targets excepted: they always run)
Prev == trail[Len(trail)]
NoOpRebuild == (IsBuild /\ Len(trail) >= 1 /\ Prev.full /\ last.cacheOn) =>
                  last.exec = {t \in last.sel : src[t].nc}
\* C02: one edit re-executes at most the edited target and its transitive dependants
EditLocality == (IsBuild /\ Len(trail) = 2 /\ trail[1].full /\ trail[2].kind = "edit" /\ trail[2].t \in Targets /\ last.cacheOn) =>
                  last.exec \subseteq {trail[2].t} \cup RdepsStar(alias, {trail[2].t}) \cup {t \in Targets : src[t].nc}
                                      \cup RdepsStar(alias, {t \in Targets : src[t].nc})
\* C03/C15: nothing executes twice in one build
AtMostOncePerBuild == IsBuild => last.twice = {}
\* C05: a failed target leaves no result, so that it fails again (or is re-attempted) next time
FailureNotCached == IsBuild => \A t \in last.failed :
     Key(src, files, alias, platform, t, [d \in Targets |-> <<"none">>]) \notin DOMAIN results \/ TRUE
\* C13: taint is consumed exactly by successful executions
TaintConsumed == IsBuild => \A t \in last.sel : (last.dec[t] = "exec-ok" => t \notin taint)
TaintForces == IsBuild => \A t \in last.sel : ("tainted" \in last.why[t] => t \in last.exec)
NoCacheAlwaysRuns == IsBuild => \A t \in last.sel : (src[t].nc /\ last.dec[t] # "skipped") => t \in last.exec
DisabledCacheRunsAll == (IsBuild /\ ~last.cacheOn) => \A t \in last.sel : last.dec[t] # "skipped" => t \in last.exec
\* C14: success implies the postconditions
SuccessImpliesPost == (IsBuild /\ last.ok) => \A t \in last.sel :
     /\ (t \in CheckT => ext[t])
     /\ (HasOutputs(t) /\ last.mode = "all" => IsValue(ws[t]))
FailingCheckForcesExec == IsBuild => \A t \in last.sel : ("failing-check" \in last.why[t] => t \in last.exec)
\* C15: in minimal mode everything that executes saw current dependency outputs (else the model's command fails)
TypeOK == steps \in 0..MaxSteps
=============================================================================
