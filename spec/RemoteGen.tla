---- MODULE RemoteGen ----
(* Behaviour generator for binding B2 of C08: Remote.tla's Next with a history variable. *)
EXTENDS Remote, Json
VARIABLE hist
GInit == Init /\ hist = <<>>
GNext == /\ Next
         /\ hist' = Append(hist, [act |-> last', local |-> local', remote |-> remote', key |-> key'])
GSpec == GInit /\ [][GNext]_<<vars, hist>>
Emit == (steps = MaxSteps) => PrintT(<<"TRACEJSON", ToJson(hist)>>)
====
