---- MODULE RemoteGen ----
(* Behaviour generator for binding B2 of C08: Remote.tla's Next with a history variable. *)
EXTENDS Remote, Json
CONSTANT Systematic   \* TRUE: enumerate (model-checking mode) every behaviour of the shape
                      \*   fault-free build on A (with or without the remote) ; fault-free actions ; build with the remote and at most
                      \*   one faulty operation ; fault-free build on B with the remote
VARIABLE hist
GInit == Init /\ hist = <<>>
IsB(l) == l.kind = "build"
SysOK == /\ steps = 0 => IsB(last') /\ last'.m = "A" /\ last'.f = {}
         /\ (0 < steps /\ steps < MaxSteps - 2) => (IsB(last') => last'.f = {})
         /\ steps = MaxSteps - 2 => IsB(last') /\ last'.remote /\ Cardinality(last'.f) <= 1
         /\ steps = MaxSteps - 1 => IsB(last') /\ last'.m = "B" /\ last'.remote /\ last'.f = {}
GNext == /\ Next
         /\ Systematic => SysOK
         /\ hist' = Append(hist, [act |-> last', local |-> local', remote |-> remote', key |-> key'])
GSpec == GInit /\ [][GNext]_<<vars, hist>>
Emit == (steps = MaxSteps) => PrintT(<<"TRACEJSON", ToJson(hist)>>)
====
