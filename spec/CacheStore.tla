----------------------------- MODULE CacheStore -----------------------------
(* C07 -- the persistent cache stays consistent across crashes and storage faults.
   File-level model of one build storing its outputs (internal/caching/backends/fs.go Set: MkdirAll, CreateTemp,
   copy, Close, Rename; internal/caching/cas.go Write: skip when the digest is already visible; the ordering imposed by
   the output handlers and execute.go: file blobs -> tree blob -> target result).
   Blobs: o (a file output), f1, f2 (files of a directory output), t (its tree, written after f1 and f2), and the
   target result r (written after o and t; it references all four).  Any step may be the last one before a crash
   (kill -9) or may fail (storage fault); a new build attempt (Restart) then runs against whatever is on disk.
   Atomic = TRUE is the implementation (temp file + rename); Atomic = FALSE writes to the final name directly and is
   the counter-model in which TLC finds torn blobs. *)
EXTENDS Naturals, FiniteSets, TLC

CONSTANTS Atomic, MaxCrashes, MaxFaults

Blobs == {"o", "f1", "f2", "t"}
Items == Blobs \cup {"r"}
Needs(i) == CASE i = "t" -> {"f1", "f2"} [] i = "r" -> {"o", "t"} [] OTHER -> {}
RefsOfResult == Blobs

VARIABLES step,      \* per item: idle | temp | half | full | closed | done | failed
          visible,   \* per item: "absent" | "partial" | "complete"   (what a reader finds under the final name)
          tmps,      \* number of temp files left behind
          attempt,   \* "running" | "crashed" | "failed" | "succeeded"
          crashes, faults
vars == <<step, visible, tmps, attempt, crashes, faults>>

Init == /\ step = [i \in Items |-> "idle"] /\ visible = [i \in Items |-> "absent"]
        /\ tmps = 0 /\ attempt = "running" /\ crashes = 0 /\ faults = 0

Ready(i) == attempt = "running" /\ \A n \in Needs(i) : step[n] = "done"
\* Cas.Write skips blobs that are already visible (the result is always written)
Skip(i) == /\ Ready(i) /\ step[i] = "idle" /\ i \in Blobs /\ visible[i] # "absent"
           /\ step' = [step EXCEPT ![i] = "done"] /\ UNCHANGED <<visible, tmps, attempt, crashes, faults>>
CreateTemp(i) == /\ Ready(i) /\ step[i] = "idle" /\ (i \in Blobs => visible[i] = "absent")
                 /\ step' = [step EXCEPT ![i] = "temp"]
                 /\ IF Atomic THEN tmps' = tmps + 1 /\ UNCHANGED visible
                              ELSE visible' = [visible EXCEPT ![i] = "partial"] /\ UNCHANGED tmps
                 /\ UNCHANGED <<attempt, crashes, faults>>
Copy1(i) == /\ attempt = "running" /\ step[i] = "temp" /\ step' = [step EXCEPT ![i] = "half"]
            /\ UNCHANGED <<visible, tmps, attempt, crashes, faults>>
Copy2(i) == /\ attempt = "running" /\ step[i] = "half" /\ step' = [step EXCEPT ![i] = "full"]
            /\ UNCHANGED <<visible, tmps, attempt, crashes, faults>>
Close(i) == /\ attempt = "running" /\ step[i] = "full" /\ step' = [step EXCEPT ![i] = "closed"]
            /\ UNCHANGED <<visible, tmps, attempt, crashes, faults>>
Rename(i) == /\ attempt = "running" /\ step[i] = "closed"
             /\ step' = [step EXCEPT ![i] = "done"]
             /\ visible' = [visible EXCEPT ![i] = "complete"]
             /\ tmps' = IF Atomic THEN tmps - 1 ELSE tmps
             /\ UNCHANGED <<attempt, crashes, faults>>
\* a storage fault in any step of a Set: the temp file is removed (deferred os.Remove), the build attempt fails
Fault(i) == /\ attempt = "running" /\ faults < MaxFaults /\ step[i] \in {"temp", "half", "full", "closed"}
            /\ faults' = faults + 1 /\ attempt' = "failed"
            /\ step' = [step EXCEPT ![i] = "failed"]
            /\ tmps' = IF Atomic THEN tmps - 1 ELSE tmps
            /\ UNCHANGED <<visible, crashes>>
\* kill -9: the process state is lost, the directory stays as it is
Crash == /\ attempt = "running" /\ crashes < MaxCrashes
         /\ crashes' = crashes + 1 /\ attempt' = "crashed" /\ UNCHANGED <<step, visible, tmps, faults>>
Succeed == /\ attempt = "running" /\ step["r"] = "done" /\ attempt' = "succeeded" /\ UNCHANGED <<step, visible, tmps, crashes, faults>>
\* the next build on the same cache
Restart == /\ attempt \in {"crashed", "failed"}
           /\ attempt' = "running" /\ step' = [i \in Items |-> "idle"]
           /\ UNCHANGED <<visible, tmps, crashes, faults>>
Done == attempt = "succeeded" /\ UNCHANGED vars
Next == (\E i \in Items : Skip(i) \/ CreateTemp(i) \/ Copy1(i) \/ Copy2(i) \/ Close(i) \/ Rename(i) \/ Fault(i))
        \/ Crash \/ Succeed \/ Restart \/ Done
Spec == Init /\ [][Next]_vars
FairSpec == Spec /\ WF_vars(Next)

\* every blob visible under a digest has exactly that content
BlobIntegrity == \A b \in Items : visible[b] # "partial"
\* a visible result references only visible (complete) blobs
ResultClosure == visible["r"] = "complete" => \A b \in RefsOfResult : visible[b] = "complete"
NoTornResult == visible["r"] # "partial"
\* with bounded crashes and faults a build eventually succeeds, re-executing what was lost
EventuallySucceeds == <>(attempt = "succeeded")
=============================================================================
