----------------------------- MODULE CacheStore -----------------------------
(* C07 -- the persistent cache stays consistent across crashes and storage faults.
   File-level model of one build storing its outputs (internal/caching/backends/fs.go Set: MkdirAll, CreateTemp,
   copy, Close, Rename; internal/caching/cas.go Write: skip when the digest is already visible; the ordering imposed by
   the output handlers and execute.go: file blobs -> tree blob -> target result).
   Blobs: o (a file output), f1, f2 (files of a directory output), t (its tree, written after f1 and f2), the target result r
   (written after o and t; it references all four), and a second target whose output has the same digest as o: its writer o2
   runs concurrently with o's and its result r2 references that digest.  Any step may be the last one before a crash
   (kill -9) or may fail (storage fault); a new build attempt (Restart) then runs against whatever is on disk.
   Atomic = TRUE is the implementation (temp file + rename); Atomic = FALSE writes to the final name directly and is
   the counter-model in which TLC finds torn blobs. *)
EXTENDS Naturals, FiniteSets, TLC

CONSTANTS Atomic, MaxCrashes, MaxFaults

\* "o2" is a second writer of the same digest as "o" (another target whose output has identical content, stored concurrently);
\* its result "r2" references that digest.  Name(i) is the file name an item is stored under.
Blobs == {"o", "o2", "f1", "f2", "t"}
Results == {"r", "r2"}
Items == Blobs \cup Results
Name(i) == IF i = "o2" THEN "o" ELSE i
Needs(i) == CASE i = "t" -> {"f1", "f2"} [] i = "r" -> {"o", "t"} [] i = "r2" -> {"o2"} [] OTHER -> {}
Refs(r) == IF r = "r" THEN {"o", "f1", "f2", "t"} ELSE {"o"}

VARIABLES step,      \* per item: idle | temp | half | full | closed | done | failed
          visible,   \* per item: "absent" | "partial" | "complete"   (what a reader finds under the final name)
          tmps,      \* number of temp files left behind
          attempt,   \* "running" | "crashed" | "failed" | "succeeded"
          crashes, faults
vars == <<step, visible, tmps, attempt, crashes, faults>>

Names == {Name(i) : i \in Items}
Init == /\ step = [i \in Items |-> "idle"] /\ visible = [n \in Names |-> "absent"]
        /\ tmps = 0 /\ attempt = "running" /\ crashes = 0 /\ faults = 0

Ready(i) == attempt = "running" /\ \A n \in Needs(i) : step[n] = "done"
\* Cas.Write skips blobs that are already visible (the result is always written)
Skip(i) == /\ Ready(i) /\ step[i] = "idle" /\ i \in Blobs /\ visible[Name(i)] # "absent"
           /\ step' = [step EXCEPT ![i] = "done"] /\ UNCHANGED <<visible, tmps, attempt, crashes, faults>>
CreateTemp(i) == /\ Ready(i) /\ step[i] = "idle" /\ (i \in Blobs => visible[Name(i)] = "absent")
                 /\ step' = [step EXCEPT ![i] = "temp"]
                 /\ IF Atomic THEN tmps' = tmps + 1 /\ UNCHANGED visible
                              ELSE visible' = [visible EXCEPT ![Name(i)] = "partial"] /\ UNCHANGED tmps
                 /\ UNCHANGED <<attempt, crashes, faults>>
Copy1(i) == /\ attempt = "running" /\ step[i] = "temp" /\ step' = [step EXCEPT ![i] = "half"]
            /\ UNCHANGED <<visible, tmps, attempt, crashes, faults>>
Copy2(i) == /\ attempt = "running" /\ step[i] = "half" /\ step' = [step EXCEPT ![i] = "full"]
            /\ UNCHANGED <<visible, tmps, attempt, crashes, faults>>
Close(i) == /\ attempt = "running" /\ step[i] = "full" /\ step' = [step EXCEPT ![i] = "closed"]
            /\ UNCHANGED <<visible, tmps, attempt, crashes, faults>>
Rename(i) == /\ attempt = "running" /\ step[i] = "closed"
             /\ step' = [step EXCEPT ![i] = "done"]
             /\ visible' = [visible EXCEPT ![Name(i)] = "complete"]
             /\ tmps' = IF Atomic THEN tmps - 1 ELSE tmps
             /\ UNCHANGED <<attempt, crashes, faults>>
\* a storage fault in any step of a Set: the temp file is removed (deferred os.Remove), the build attempt fails
Fault(i) == /\ attempt = "running" /\ faults < MaxFaults /\ step[i] \in {"temp", "half", "full", "closed"}
            /\ faults' = faults + 1 /\ attempt' = "failed"
            /\ step' = [step EXCEPT ![i] = "failed"]
            /\ tmps' = IF Atomic THEN tmps - 1 ELSE tmps
            /\ UNCHANGED <<visible, crashes>>
\* kill -9: the process state is lost, the directory stays as it is
Crash == /\ attempt = "running" /\ crashes < MaxCrashes
         /\ crashes' = crashes + 1 /\ attempt' = "crashed" /\ UNCHANGED <<step, visible, tmps, faults>>
Succeed == /\ attempt = "running" /\ step["r"] = "done" /\ step["r2"] = "done" /\ attempt' = "succeeded" /\ UNCHANGED <<step, visible, tmps, crashes, faults>>
\* the next build on the same cache
Restart == /\ attempt \in {"crashed", "failed"}
           /\ attempt' = "running" /\ step' = [i \in Items |-> "idle"]
           /\ UNCHANGED <<visible, tmps, crashes, faults>>
Done == attempt = "succeeded" /\ UNCHANGED vars
Next == (\E i \in Items : Skip(i) \/ CreateTemp(i) \/ Copy1(i) \/ Copy2(i) \/ Close(i) \/ Rename(i) \/ Fault(i))
        \/ Crash \/ Succeed \/ Restart \/ Done
Spec == Init /\ [][Next]_vars
FairSpec == Spec /\ WF_vars(Next)

\* every blob visible under a digest has exactly that content
BlobIntegrity == \A n \in Names : visible[n] # "partial"
\* a visible result references only visible (complete) blobs
ResultClosure == \A r \in Results : visible[r] = "complete" => \A b \in Refs(r) : visible[b] = "complete"
NoTornResult == \A r \in Results : visible[r] # "partial"
\* with bounded crashes and faults a build eventually succeeds, re-executing what was lost
EventuallySucceeds == <>(attempt = "succeeded")
=============================================================================
