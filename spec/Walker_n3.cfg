SPECIFICATION Spec
CONSTANTS
  N = 3
  MaxWorkers = 2
  SplitRegistration = TRUE
  AllowExtCancel = TRUE
INVARIANTS TypeOK DepsFirst WorkerBound NoLostSignal NoRace Resolved KeepGoing NeverBelowFailure FailureRecorded
PROPERTIES AtMostOnce StopsStarts
