SPECIFICATION Spec
CONSTANTS
  L = 6
  CurPkg <- CurPkgP
  OutFile <- OutFileC
INVARIANTS LabelRoundTrip Shorthand Relative PatternRoundTrip ComponentBoundary AllIsPackageLocal NameSuffixExact LabelAsPattern
CHECK_DEADLOCK FALSE
