------------------------------ MODULE Interrupt ------------------------------
(* C18 -- interrupts stop the build promptly and leave a recoverable state.
   The life of one `grog build` process that may receive SIGINT / SIGTERM at any moment: loading, lock held, per-target command
   started / finished / killed, outputs and result stored, exit.  (The goroutine-level behaviour after a cancellation is the
   ExtCancel part of Walker.tla; the lock left behind is Locker.tla's stale-file case; the follow-up build is GrogBuild.tla's CleanEq.)
   Properties: after the signal has been observed no further command starts; a command that was killed leaves no cache entry;
   the process exits, non-zero unless everything had already completed; the lock is not held after exit. *)
EXTENDS Naturals, FiniteSets, Sequences, TLC

CONSTANTS Targets, Deps       \* Deps: [Targets -> SUBSET Targets]

VARIABLES phase,      \* "loading" | "running" | "exited"
          signalled,
          cmd,        \* per target: idle | running | done | failed | killed | refused
          result,     \* per target: a cache entry was written by this build
          lockHeld, exitCode
vars == <<phase, signalled, cmd, result, lockHeld, exitCode>>

Init == /\ phase = "loading" /\ signalled = FALSE /\ cmd = [t \in Targets |-> "idle"] /\ result = [t \in Targets |-> FALSE]
        /\ lockHeld = FALSE /\ exitCode = 99

Signal == /\ phase # "exited" /\ ~signalled /\ signalled' = TRUE /\ UNCHANGED <<phase, cmd, result, lockHeld, exitCode>>
AcquireLock == /\ phase = "loading" /\ phase' = "running" /\ lockHeld' = TRUE /\ UNCHANGED <<signalled, cmd, result, exitCode>>
StartCmd(t) == /\ phase = "running" /\ ~signalled /\ cmd[t] = "idle" /\ \A d \in Deps[t] : cmd[d] = "done"
               /\ cmd' = [cmd EXCEPT ![t] = "running"] /\ UNCHANGED <<phase, signalled, result, lockHeld, exitCode>>
\* the pipeline reaches the command after the cancellation: exec refuses to start it
RefuseCmd(t) == /\ phase = "running" /\ signalled /\ cmd[t] = "idle" /\ \A d \in Deps[t] : cmd[d] = "done"
                /\ cmd' = [cmd EXCEPT ![t] = "refused"] /\ UNCHANGED <<phase, signalled, result, lockHeld, exitCode>>
EndCmd(t) == /\ cmd[t] = "running" /\ cmd' = [cmd EXCEPT ![t] = "done"] /\ UNCHANGED <<phase, signalled, result, lockHeld, exitCode>>
KillCmd(t) == /\ cmd[t] = "running" /\ signalled /\ cmd' = [cmd EXCEPT ![t] = "killed"] /\ UNCHANGED <<phase, signalled, result, lockHeld, exitCode>>
\* a target whose command completed stores its outputs and result (also when the signal arrived meanwhile)
WriteResult(t) == /\ cmd[t] = "done" /\ ~result[t] /\ phase = "running"
                  /\ result' = [result EXCEPT ![t] = TRUE] /\ UNCHANGED <<phase, signalled, cmd, lockHeld, exitCode>>
AllDone == \A t \in Targets : cmd[t] = "done" /\ result[t]
Exit(code) == /\ phase # "exited" /\ \A t \in Targets : cmd[t] # "running"
              /\ (code = 0) => (phase = "running" /\ AllDone)
              /\ (~signalled /\ phase = "running") => AllDone
              /\ phase' = "exited" /\ exitCode' = code /\ lockHeld' = FALSE
              /\ UNCHANGED <<signalled, cmd, result>>
Done == phase = "exited" /\ UNCHANGED vars
Next == Signal \/ AcquireLock \/ (\E t \in Targets : StartCmd(t) \/ RefuseCmd(t) \/ EndCmd(t) \/ KillCmd(t) \/ WriteResult(t))
        \/ (\E c \in {0, 1} : Exit(c)) \/ Done
Spec == Init /\ [][Next]_vars
FairSpec == Spec /\ WF_vars(Next)

NoResultForInterrupted == \A t \in Targets : cmd[t] \in {"killed", "refused", "idle"} => ~result[t]
NoStartAfterSignal == [][\A t \in Targets : (cmd[t] = "idle" /\ cmd'[t] = "running") => ~signalled]_vars
InterruptedExitsNonZero == (phase = "exited" /\ exitCode = 0) => AllDone
LockReleasedAtExit == phase = "exited" => ~lockHeld
ExitsEventually == <>(phase = "exited")
=============================================================================
