---- MODULE PipelineMC ----
EXTENDS Pipeline
AllTargets == {"a", "b", "c", "d", "g", "k", "m", "n"}
TraceFileC == "pipeline_traces.json"
====
