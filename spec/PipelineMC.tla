---- MODULE PipelineMC ----
EXTENDS Pipeline
AllTargets == {"a", "b", "c", "d", "g", "k", "m", "n", "p", "q", "r"}
TraceFileC == "pipeline_traces.json"
====
