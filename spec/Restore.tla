------------------------------- MODULE Restore -------------------------------
(* C06 -- cached outputs are restored exactly, from any workspace state -- and the directory-restore
   goroutines of C04.

   Part 1 (function): an output is a tree of entries (files with content and executable bit, symlinks,
   empty directories, one level of sub-directories).  For every cached tree and every prior state of the
   destination derived from it (identical, absent, parent absent, content modified / truncated, stale
   extra entries, an entry removed, mode bits changed, symlink retargeted, a file where the directory should
   be, an empty directory), Restore must leave exactly the cached tree.  The state machine below makes each
   (tree, prior) pair one TLC state; the pairs are exported and replayed into the real output handlers.

   Part 2 (the restore goroutines under read faults) is DirLoad.tla. *)
EXTENDS Naturals, Sequences, FiniteSets, SequencesExt, TLC, Json

CONSTANTS Contents,      \* file contents menu
          RootNames,     \* entry names at the root of a directory output
          SubNames,      \* entry names inside a sub-directory
          MaxSub,        \* maximal number of entries in a sub-directory
          OutFile

(* ------------------------------------------------------------------ part 1 *)
Files == [kind : {"file"}, content : Contents, exec : BOOLEAN]
\* symlinks with a plain target and with a target that is not in canonical form (the link must come back as it was spelled)
Leaves == Files \cup {[kind |-> "link", target |-> "n"], [kind |-> "link", target |-> "./sub/../n"], [kind |-> "emptydir"]}
SubDirs == UNION {[d -> Leaves] : d \in {S \in SUBSET SubNames : S # {} /\ Cardinality(S) <= MaxSub}}
Entries == Leaves \cup {[kind |-> "dir", sub |-> d] : d \in SubDirs}
DirTrees == UNION {[d -> Entries] : d \in {S \in SUBSET RootNames : S # {}}}
FileOutputs == [kind : {"file"}, content : Contents, exec : BOOLEAN, path : {"o", "sub/o"}]

DirPriors == {"identical", "absent", "modify", "truncate", "extra-root", "extra-nested", "rm-entry", "chmod", "relink", "file-where-dir", "emptied", "readonly-sub"}
FilePriors == {"identical", "absent", "parent-absent", "modify", "truncate", "chmod", "modify-chmod", "longer-chmod", "dir-where-file", "symlink-to-sibling", "dangling-symlink"}

HasFile(t) == \E n \in DOMAIN t : t[n].kind = "file" \/ (t[n].kind = "dir" /\ \E m \in DOMAIN t[n].sub : t[n].sub[m].kind = "file")
HasSub(t) == \E n \in DOMAIN t : t[n].kind = "dir"
HasLink(t) == \E n \in DOMAIN t : t[n].kind = "link" \/ (t[n].kind = "dir" /\ \E m \in DOMAIN t[n].sub : t[n].sub[m].kind = "link")
Applicable(t, p) ==
  CASE p \in {"modify", "truncate", "chmod"} -> HasFile(t)
    [] p \in {"extra-nested", "readonly-sub"} -> HasSub(t)
    [] p = "relink" -> HasLink(t)
    [] OTHER -> TRUE
FileApplicable(f, p) == (p = "parent-absent" => f.path = "sub/o")

VARIABLES cached, prior, dest
rvars == <<cached, prior, dest>>
RInit == /\ \/ cached \in DirTrees /\ prior \in DirPriors /\ Applicable(cached, prior)
            \/ cached \in FileOutputs /\ prior \in FilePriors /\ FileApplicable(cached, prior)
         /\ dest = <<"prior", prior>>
\* the one step: restore from the cache
RestoreStep == dest[1] = "prior" /\ dest' = <<"restored", cached>> /\ UNCHANGED <<cached, prior>>
RSpec == RInit /\ [][RestoreStep]_rvars
RestoreExact == dest[1] = "restored" => dest[2] = cached

ExportCases ==
  [ dirs |-> SetToSeq({x \in [tree : DirTrees, prior : DirPriors] : Applicable(x.tree, x.prior)}),
    files |-> SetToSeq({x \in [f : FileOutputs, prior : FilePriors] : FileApplicable(x.f, x.prior)}) ]
ASSUME OutFile = "" \/ JsonSerialize(OutFile, ExportCases)

=============================================================================
