---- MODULE QueryMC ----
EXTENDS Query
NoOutC == ""
QOutFileC == "query_cases.json"
====
