---- MODULE SelectionMC ----
EXTENDS Selection
OutFileC == "selection_cases.json"
====
