--------------------------- MODULE InterruptProof ---------------------------
(* Safety of Interrupt.tla for ANY target set and dependency relation, checked by the TLA+ proof system (TLC checks it, with
   ExitsEventually, for the graph shapes of InterruptMC).  Inductive invariant: a cache entry exists only for a target whose
   command completed; exit code 0 is only ever recorded with everything done and stored; the lock is not held after exit. *)
EXTENDS Interrupt, TLAPS

Cmds == {"idle", "running", "done", "failed", "killed", "refused"}
TypeInv == /\ cmd \in [Targets -> Cmds] /\ result \in [Targets -> BOOLEAN]
           /\ phase \in {"loading", "running", "exited"} /\ signalled \in BOOLEAN /\ lockHeld \in BOOLEAN
ResultMeansDone == \A t \in Targets : result[t] => cmd[t] = "done"
Inv == TypeInv /\ ResultMeansDone /\ InterruptedExitsNonZero /\ LockReleasedAtExit

LEMMA InitInv == Init => Inv
  BY DEF Init, Inv, TypeInv, ResultMeansDone, InterruptedExitsNonZero, LockReleasedAtExit, Cmds, AllDone

LEMMA InvSafe == Inv => NoResultForInterrupted /\ InterruptedExitsNonZero /\ LockReleasedAtExit
  BY DEF Inv, TypeInv, ResultMeansDone, NoResultForInterrupted

LEMMA NextInv == Inv /\ [Next]_vars => Inv'
  <1> SUFFICES ASSUME Inv, [Next]_vars PROVE Inv' OBVIOUS
  <1> USE DEF Inv, TypeInv, ResultMeansDone, InterruptedExitsNonZero, LockReleasedAtExit, Cmds, AllDone
  <1>1. ASSUME Signal PROVE Inv' BY <1>1 DEF Signal
  <1>2. ASSUME AcquireLock PROVE Inv' BY <1>2 DEF AcquireLock
  <1>3. ASSUME NEW t \in Targets, StartCmd(t) PROVE Inv' BY <1>3 DEF StartCmd
  <1>4. ASSUME NEW t \in Targets, RefuseCmd(t) PROVE Inv' BY <1>4 DEF RefuseCmd
  <1>5. ASSUME NEW t \in Targets, EndCmd(t) PROVE Inv' BY <1>5 DEF EndCmd
  <1>6. ASSUME NEW t \in Targets, KillCmd(t) PROVE Inv' BY <1>6 DEF KillCmd
  <1>7. ASSUME NEW t \in Targets, WriteResult(t) PROVE Inv' BY <1>7 DEF WriteResult
  <1>8. ASSUME NEW c \in {0, 1}, Exit(c) PROVE Inv' BY <1>8 DEF Exit
  <1>9. ASSUME Done \/ UNCHANGED vars PROVE Inv' BY <1>9 DEF Done, vars
  <1> QED BY <1>1, <1>2, <1>3, <1>4, <1>5, <1>6, <1>7, <1>8, <1>9 DEF Next

LEMMA StepNoStart == Inv /\ [Next]_vars => [\A t \in Targets : (cmd[t] = "idle" /\ cmd'[t] = "running") => ~signalled]_vars
  <1> SUFFICES ASSUME Inv, Next, NEW t \in Targets, cmd[t] = "idle", cmd'[t] = "running" PROVE ~signalled OBVIOUS
  <1> USE DEF Inv, TypeInv, Cmds
  <1>1. CASE Signal BY <1>1 DEF Signal
  <1>2. CASE AcquireLock BY <1>2 DEF AcquireLock
  <1>3. ASSUME NEW u \in Targets, StartCmd(u) PROVE ~signalled BY <1>3 DEF StartCmd
  <1>4. ASSUME NEW u \in Targets, RefuseCmd(u) PROVE ~signalled BY <1>4 DEF RefuseCmd
  <1>5. ASSUME NEW u \in Targets, EndCmd(u) PROVE ~signalled BY <1>5 DEF EndCmd
  <1>6. ASSUME NEW u \in Targets, KillCmd(u) PROVE ~signalled BY <1>6 DEF KillCmd
  <1>7. ASSUME NEW u \in Targets, WriteResult(u) PROVE ~signalled BY <1>7 DEF WriteResult
  <1>8. ASSUME NEW c \in {0, 1}, Exit(c) PROVE ~signalled BY <1>8 DEF Exit
  <1>9. CASE Done BY <1>9 DEF Done, vars
  <1> QED BY <1>1, <1>2, <1>3, <1>4, <1>5, <1>6, <1>7, <1>8, <1>9 DEF Next

THEOREM Safety == Spec => [](NoResultForInterrupted /\ InterruptedExitsNonZero /\ LockReleasedAtExit) /\ NoStartAfterSignal
  <1>1. Inv /\ [][Next]_vars => []Inv BY NextInv, PTL
  <1>2. Spec => []Inv BY InitInv, <1>1, PTL DEF Spec
  <1>3. Spec => NoStartAfterSignal BY <1>2, StepNoStart, PTL DEF Spec, NoStartAfterSignal
  <1> QED BY InvSafe, <1>2, <1>3, PTL
=============================================================================
