---------------------------- MODULE LockerProof ----------------------------
(* Unbounded safety of the flock protocol of Locker.tla, checked by the TLA+ proof system (tlapm): for ANY set of
   processes, any number of inodes and any number of crashes, without `grog clean`, two processes are never both past
   acquisition.  TLC checks the same property (and liveness) for 2-3 processes; this proof removes the bound for safety.

   The inductive invariant: a process between a successful flock and its close owns the flock of the inode it has open
   (Owns); a process between a successful verification and its own remove sees its inode at the lock path (AtPath). *)
EXTENDS Locker, TLAPS

ASSUME Assumptions == /\ Protocol = "flock" /\ AllowClean = FALSE /\ None \notin Procs /\ MaxIno \in Nat /\ MaxIno >= 1

PCs == {"start", "flock", "verify", "write", "read", "sleep", "held", "unlocking", "closing", "done", "crashed"}
HasLock == {"verify", "write", "held", "unlocking", "closing"}
OnPath == {"write", "held", "unlocking"}

TypeInv == /\ path \in Inos \cup {0}
           /\ owner \in [Inos -> Procs \cup {None}]
           /\ pc \in [Procs -> PCs]
           /\ fd \in [Procs -> Inos \cup {0}]
           /\ nextIno \in Nat \ {0}
Owns == \A p \in Procs : pc[p] \in HasLock => (fd[p] \in Inos /\ owner[fd[p]] = p)
Opened == \A p \in Procs : pc[p] = "flock" => fd[p] \in Inos
AtPath == \A p \in Procs : pc[p] \in OnPath => path = fd[p]
Inv == TypeInv /\ Owns /\ Opened /\ AtPath

MutexAlt == \A p, q \in Procs : (pc[p] = "held" /\ pc[q] = "held") => p = q

LEMMA InosFacts == /\ 0 \notin Inos /\ \A i \in Inos : i \in Nat
  BY Assumptions DEF Inos

LEMMA InitInv == Init => Inv
  <1> SUFFICES ASSUME Init PROVE Inv OBVIOUS
  <1>1. TypeInv
    BY Assumptions, InosFacts DEF Init, TypeInv, Inos, PCs
  <1>2. Owns /\ Opened /\ AtPath
    BY DEF Init, Owns, Opened, AtPath, HasLock, OnPath
  <1> QED BY <1>1, <1>2 DEF Inv

LEMMA InvMutex == Inv => MutexAlt
  BY DEF Inv, Owns, AtPath, MutexAlt, HasLock, OnPath, TypeInv

LEMMA NextInv == Inv /\ [Next]_vars => Inv'
  <1> SUFFICES ASSUME Inv, [Next]_vars PROVE Inv' OBVIOUS
  <1> USE Assumptions, InosFacts DEF Inv, TypeInv, Owns, Opened, AtPath, HasLock, OnPath, PCs, Goto
  <1>1. ASSUME NEW p \in Procs, Open(p) PROVE Inv'
    BY <1>1 DEF Open, Inos
  <1>2. ASSUME NEW p \in Procs, Flock(p) PROVE Inv'
    BY <1>2 DEF Flock
  <1>3. ASSUME NEW p \in Procs, Verify(p) PROVE Inv'
    BY <1>3 DEF Verify
  <1>4. ASSUME NEW p \in Procs, Write(p) PROVE Inv'
    BY <1>4 DEF Write
  <1>5. ASSUME NEW p \in Procs, Read(p) PROVE Inv'
    BY <1>5 DEF Read
  <1>6. ASSUME NEW p \in Procs, Sleep(p) PROVE Inv'
    BY <1>6 DEF Sleep
  <1>7. ASSUME NEW p \in Procs, ExitCS(p) PROVE Inv'
    BY <1>7 DEF ExitCS
  <1>8. ASSUME NEW p \in Procs, UnlockRemove(p) PROVE Inv'
    BY <1>8 DEF UnlockRemove
  <1>9. ASSUME NEW p \in Procs, UnlockClose(p) PROVE Inv'
    BY <1>9 DEF UnlockClose
  <1>10. ASSUME NEW p \in Procs, Crash(p) PROVE Inv'
    BY <1>10 DEF Crash
  <1>11. ASSUME NEW p \in Procs, PCreate(p) \/ PUnlock(p) PROVE Inv'
    BY <1>11 DEF PCreate, PUnlock
  <1>12. ASSUME NEW p \in Procs, PWrite(p) \/ PRead(p) \/ PProbe(p) \/ PRemove(p) PROVE Inv'
    BY <1>12 DEF PWrite, PRead, PProbe, PRemove
  <1>13. ASSUME Clean PROVE Inv'
    BY <1>13 DEF Clean
  <1>14. ASSUME UNCHANGED vars PROVE Inv'
    BY <1>14 DEF vars
  <1> QED
    BY <1>1, <1>2, <1>3, <1>4, <1>5, <1>6, <1>7, <1>8, <1>9, <1>10, <1>11, <1>12, <1>13, <1>14 DEF Next, Step

THEOREM Safety == Spec => []MutexAlt
  <1>1. Inv /\ [][Next]_vars => []Inv
    BY NextInv, PTL
  <1> QED
    BY InitInv, InvMutex, <1>1, PTL DEF Spec
=============================================================================
