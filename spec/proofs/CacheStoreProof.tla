-------------------------- MODULE CacheStoreProof --------------------------
(* Unbounded safety of the store protocol of CacheStore.tla (Atomic = TRUE: temp file + rename), checked by the TLA+ proof
   system: for ANY number of crashes, storage faults and restarted builds, no partial entry is ever visible and a visible
   result references only visible blobs.  TLC checks the same (and EventuallySucceeds) for <= 2 crashes and faults.

   Inductive invariant: with atomic renames a name is absent or complete (TwoValued); a finished item is visible (DoneVisible);
   an item being written or finished in this attempt has its prerequisites finished in this attempt (NeedsDone); whatever is
   visible has its prerequisites visible (Closed). *)
EXTENDS CacheStore, TLAPS

ASSUME Assumptions == Atomic = TRUE

Steps == {"idle", "temp", "half", "full", "closed", "done", "failed"}
Writing == {"temp", "half", "full", "closed"}
TypeInv == /\ step \in [Items -> Steps]
           /\ visible \in [Names -> {"absent", "partial", "complete"}]
TwoValued == \A n \in Names : visible[n] \in {"absent", "complete"}
DoneVisible == \A i \in Items : step[i] = "done" => visible[Name(i)] = "complete"
NeedsDone == \A i \in Items : step[i] \in Writing => \A n \in Needs(i) : step[n] = "done"
Closed == \A i \in Items : visible[Name(i)] = "complete" => \A n \in Needs(i) : visible[Name(n)] = "complete"
Inv == TypeInv /\ TwoValued /\ DoneVisible /\ NeedsDone /\ Closed

LEMMA Facts == /\ Items = {"o", "o2", "f1", "f2", "t", "r", "r2"}
               /\ Names = {"o", "f1", "f2", "t", "r", "r2"}
               /\ \A i \in Items : Name(i) \in Names /\ Needs(i) \subseteq Items
               /\ Name("o") = "o" /\ Name("o2") = "o" /\ Name("f1") = "f1" /\ Name("f2") = "f2" /\ Name("t") = "t" /\ Name("r") = "r" /\ Name("r2") = "r2"
               /\ Needs("o") = {} /\ Needs("o2") = {} /\ Needs("f1") = {} /\ Needs("f2") = {} /\ Needs("t") = {"f1", "f2"}
               /\ Needs("r") = {"o", "t"} /\ Needs("r2") = {"o2"}
  BY DEF Items, Blobs, Results, Names, Name, Needs

LEMMA InitInv == Init => Inv
  BY Facts DEF Init, Inv, TypeInv, TwoValued, DoneVisible, NeedsDone, Closed, Steps, Writing

LEMMA InvSafe == Inv => BlobIntegrity /\ NoTornResult /\ ResultClosure
  <1> SUFFICES ASSUME Inv PROVE BlobIntegrity /\ NoTornResult /\ ResultClosure OBVIOUS
  <1> USE Facts DEF Inv, TypeInv, TwoValued, Closed
  <1>1. BlobIntegrity BY DEF BlobIntegrity
  <1>2. NoTornResult BY DEF NoTornResult, Results
  <1>3. ResultClosure
    <2>1. visible["r"] = "complete" => \A b \in Refs("r") : visible[b] = "complete"
      BY DEF Refs
    <2>2. visible["r2"] = "complete" => \A b \in Refs("r2") : visible[b] = "complete"
      BY DEF Refs
    <2> QED BY <2>1, <2>2 DEF ResultClosure, Results
  <1> QED BY <1>1, <1>2, <1>3

LEMMA NextInv == Inv /\ [Next]_vars => Inv'
  <1> SUFFICES ASSUME Inv, [Next]_vars PROVE Inv' OBVIOUS
  <1> USE Assumptions, Facts DEF Inv, TypeInv, TwoValued, DoneVisible, NeedsDone, Closed, Steps, Writing, Ready
  <1>1. ASSUME NEW i \in Items, Skip(i) PROVE Inv' BY <1>1 DEF Skip
  <1>2. ASSUME NEW i \in Items, CreateTemp(i) PROVE Inv' BY <1>2 DEF CreateTemp
  <1>3. ASSUME NEW i \in Items, Copy1(i) PROVE Inv' BY <1>3 DEF Copy1
  <1>4. ASSUME NEW i \in Items, Copy2(i) PROVE Inv' BY <1>4 DEF Copy2
  <1>5. ASSUME NEW i \in Items, Close(i) PROVE Inv' BY <1>5 DEF Close
  <1>6. ASSUME NEW i \in Items, Rename(i) PROVE Inv' BY <1>6 DEF Rename
  <1>7. ASSUME NEW i \in Items, Fault(i) PROVE Inv' BY <1>7 DEF Fault
  <1>8. ASSUME Crash PROVE Inv' BY <1>8 DEF Crash
  <1>9. ASSUME Succeed PROVE Inv' BY <1>9 DEF Succeed
  <1>10. ASSUME Restart PROVE Inv' BY <1>10 DEF Restart
  <1>11. ASSUME Done \/ UNCHANGED vars PROVE Inv' BY <1>11 DEF Done, vars
  <1> QED BY <1>1, <1>2, <1>3, <1>4, <1>5, <1>6, <1>7, <1>8, <1>9, <1>10, <1>11 DEF Next

THEOREM Safety == Spec => [](BlobIntegrity /\ NoTornResult /\ ResultClosure)
  <1>1. Inv /\ [][Next]_vars => []Inv BY NextInv, PTL
  <1> QED BY InitInv, InvSafe, <1>1, PTL DEF Spec
=============================================================================
