SPECIFICATION Spec
CONSTANTS
  N = 3
  MaxWorkers = 2
  SplitRegistration = FALSE
  AllowExtCancel = FALSE
INVARIANTS NoLostSignal NoRace
