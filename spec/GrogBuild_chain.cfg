SPECIFICATION Spec
CONSTANTS
  Targets <- ChainT
  Order <- ChainOrder
  DeclDeps <- ChainDeps
  Aliases <- NoAliases
  AliasMenu <- NoAliasMenu
  OutKind <- ChainKind
  InFiles <- ChainFiles
  GlobT = {}
  CheckT = {}
  CmdMenu = {"copy", "const", "fail"}
  Acts = {"EditInput", "EditCmd", "Taint", "Perturb", "Build", "ToggleNoCache"}
  Modes = {"all"}
  SelMenu = {"ALL"}
  MaxSteps = 5
INVARIANTS TypeOK CleanEq NoOpRebuild EditLocality AtMostOncePerBuild TaintConsumed TaintForces NoCacheAlwaysRuns DisabledCacheRunsAll SuccessImpliesPost
CHECK_DEADLOCK FALSE
