---------------------------- MODULE GrogBuildGen ----------------------------
(* Behaviour generator for binding B2: GrogBuild's own Next with a history variable; `tlc -simulate`
   prints each generated history as one JSON line (TRACEJSON), the harness steps it through the real
   grog binary and compares the abstract state after every action. *)
EXTENDS GrogBuildMC, Json

CONSTANT Systematic   \* TRUE: enumerate (model-checking mode) every history  full build ; non-build actions ; build
VARIABLE hist

S(v) == ToString(v)
StateRec ==
  [ src |-> src', files |-> files', alias |-> alias', platform |-> platform', taint |-> taint', ext |-> ext',
    ws |-> [t \in Targets |-> S(ws'[t])],
    act |-> IF last'.kind = "build"
              THEN [kind |-> "build", s |-> last'.s, cacheOn |-> last'.cacheOn, mode |-> last'.mode, sel |-> last'.sel,
                    exec |-> last'.exec, twice |-> last'.twice, ok |-> last'.ok, failed |-> last'.failed, skipped |-> last'.skipped,
                    dec |-> last'.dec, why |-> last'.why, loaded |-> last'.loaded,
                    cleanws |-> [t \in Targets |-> S(last'.cleanws[t])], cleanok |-> last'.cleanok]
              ELSE [kind |-> last'.kind, t |-> IF last'.kind \in {"platform", "relocate"} THEN "" ELSE last'.t] ]

Header ==
  [ targets |-> Targets, order |-> Order, decldeps |-> DeclDeps, aliases |-> Aliases, outkind |-> OutKind,
    infiles |-> InFiles, globt |-> GlobT, checkt |-> CheckT, alias0 |-> hist[1].alias0, files0 |-> hist[1].files0, maxsteps |-> MaxSteps ]

GInit == Init /\ hist = << [alias0 |-> alias, files0 |-> files] >>
MustBuild == steps % 3 = 2 \/ steps = MaxSteps - 1
GNext == /\ Next
         /\ IF Systematic
              THEN /\ steps = 0 => (last'.kind = "build" /\ last'.s = "ALL" /\ last'.cacheOn)
                   /\ (steps > 0 /\ steps < MaxSteps - 1) => last'.kind # "build"
                   /\ steps = MaxSteps - 1 => last'.kind = "build"
              ELSE MustBuild => last'.kind = "build"
         /\ hist' = Append(hist, StateRec)
GSpec == GInit /\ [][GNext]_<<vars, hist>>
Emit == (steps = MaxSteps) => PrintT(<<"TRACEJSON", ToJson([header |-> Header, steps |-> Tail(hist)])>>)
=============================================================================
