---------------------------- MODULE GrogBuildGen ----------------------------
(* Behaviour generator for binding B2: GrogBuild's own Next with a history variable; `tlc -simulate`
   prints each generated history as one JSON line (TRACEJSON), the harness steps it through the real
   grog binary and compares the abstract state after every action. *)
EXTENDS GrogBuildMC, Json

CONSTANT Systematic   \* TRUE: enumerate (model-checking mode) every history  full build ; non-build actions ; build
CONSTANT Shape        \* with Systematic: {} = the shape above, or the set of step numbers (1..MaxSteps) that are builds, all other
                      \* steps being non-build actions, e.g. {1, 3, 5} = build; action; build; action; build
CONSTANT Canonical    \* with Systematic, a selection of the histories above that reaches three- and four-action combinations without
                      \* their permutations: "off"; "kinds" = the non-build actions come in a fixed order of kinds, one per kind;
                      \* "sink" = in increasing order of (kind, target), edits only of the last target, perturbations only deletions;
                      \* "first" = edits only of the first target
VARIABLE hist

S(v) == ToString(v)
StateRec ==
  [ src |-> src', files |-> files', alias |-> alias', platform |-> platform', taint |-> taint', ext |-> ext',
    ws |-> [t \in Targets |-> S(ws'[t])],
    act |-> IF last'.kind = "build"
              THEN [kind |-> "build", s |-> last'.s, cacheOn |-> last'.cacheOn, mode |-> last'.mode, sel |-> last'.sel,
                    exec |-> last'.exec, twice |-> last'.twice, ok |-> last'.ok, failed |-> last'.failed, skipped |-> last'.skipped,
                    dec |-> last'.dec, why |-> last'.why, loaded |-> last'.loaded,
                    cleanws |-> [t \in Targets |-> S(last'.cleanws[t])], cleanok |-> last'.cleanok]
              ELSE [kind |-> last'.kind, t |-> IF last'.kind \in {"platform", "relocate", "corruptresults"} THEN "" ELSE last'.t] ]

Header ==
  [ targets |-> Targets, order |-> Order, decldeps |-> DeclDeps, aliases |-> Aliases, outkind |-> OutKind,
    infiles |-> InFiles, globt |-> GlobT, checkt |-> CheckT, toolt |-> ToolT, alias0 |-> hist[1].alias0, files0 |-> hist[1].files0, maxsteps |-> MaxSteps ]

KindRank(k) == CASE k = "edit" -> 1 [] k = "taint" -> 2 [] k = "breakext" -> 3 [] k = "breaktool" -> 4 [] k = "corruptresults" -> 5 [] k = "dropblob" -> 6 [] k = "perturb" -> 7
                 [] k = "platform" -> 8 [] k = "relocate" -> 9 [] OTHER -> 0
Pos(t) == IF \E i \in 1..Len(Order) : Order[i] = t THEN CHOOSE i \in 1..Len(Order) : Order[i] = t ELSE 0
HasT(l) == l.kind \in {"edit", "taint", "perturb", "breakext", "breaktool", "dropblob"}
CanonOK ==
  CASE Canonical = "kinds" -> KindRank(last.kind) < KindRank(last'.kind)
    [] Canonical = "sink"  -> /\ \/ KindRank(last.kind) < KindRank(last'.kind)
                                 \/ KindRank(last.kind) = KindRank(last'.kind) /\ HasT(last) /\ HasT(last') /\ Pos(last.t) < Pos(last'.t)
                              /\ last'.kind = "edit" => last'.t = Order[Len(Order)]
                              /\ last'.kind = "perturb" => ws'[last'.t] = Absent
    \* "fan": the shared dependency of several executing dependants -- edits only of the targets between the first and the last,
    \* blobs dropped and outputs deleted only for the first target, in increasing order of (kind, target)
    [] Canonical = "fan"   -> /\ \/ KindRank(last.kind) < KindRank(last'.kind)
                                 \/ KindRank(last.kind) = KindRank(last'.kind) /\ HasT(last) /\ HasT(last') /\ Pos(last.t) < Pos(last'.t)
                              /\ last'.kind = "edit" => (last'.t # Order[1] /\ last'.t # Order[Len(Order)])
                              /\ last'.kind \in {"dropblob", "perturb"} => last'.t = Order[1]
                              /\ last'.kind = "perturb" => ws'[last'.t] = Absent
    [] Canonical = "first" -> last'.kind = "edit" => last'.t = Order[1]      \* edits only of the first target, in any order
    [] OTHER -> TRUE
GInit == Init /\ hist = << [alias0 |-> alias, files0 |-> files] >>
MustBuild == steps % 3 = 2 \/ steps = MaxSteps - 1
GNext == /\ Next
         /\ IF Systematic
              THEN /\ steps = 0 => (last'.kind = "build" /\ last'.s = "ALL" /\ last'.cacheOn)
                   /\ IF Shape = {}
                        THEN /\ (steps > 0 /\ steps < MaxSteps - 1) => last'.kind # "build"
                             /\ steps = MaxSteps - 1 => last'.kind = "build"
                        ELSE (steps + 1) \in Shape <=> last'.kind = "build"
                   /\ (steps > 0 /\ last'.kind # "build") => CanonOK     \* (after a build the order starts again: KindRank("build") = 0)
              ELSE MustBuild => last'.kind = "build"
         /\ hist' = Append(hist, StateRec)
GSpec == GInit /\ [][GNext]_<<vars, hist>>
Emit == (steps = MaxSteps) => PrintT(<<"TRACEJSON", ToJson([header |-> Header, steps |-> Tail(hist)])>>)
=============================================================================
