---- MODULE CacheOrderTraceMC ----
EXTENDS CacheOrderTrace
TraceFileC == "cache_order_traces.json"
====
