------------------------------- MODULE Loader -------------------------------
(* C16 -- BUILD loaders agree across formats, are deterministic, and never crash.
   Part 1: the abstract package value (what the user means) and the enrichment rules of
   internal/loading/enrich_package.go: label = //package:name, dependency strings parsed relative to the package,
   inputs = union of the glob matches (files only) of the input patterns minus the matches of the exclude patterns,
   platforms = the target's own list if given else the package default, timeout parsed, everything else copied.
   Every abstract package is one TLC state; Expected(pkg) is exported, the harness renders the package as JSON, YAML,
   Starlark and Makefile annotations and requires every real loader to produce exactly Expected (restricted, for
   Makefiles, to the fields an annotation can carry).
   Part 2: the Makefile / script annotation automaton over sequences of line kinds. *)
EXTENDS Naturals, Sequences, FiniteSets, SequencesExt, TLC, Json

CONSTANTS OutFile, MaxLines

(* ------------------------------------------------------------------ part 1 *)
PkgFiles == {"a.txt", "b.txt", "c.md"}                       \* what exists in the package directory
GlobMatches(pat) == CASE pat = "*.txt" -> {"a.txt", "b.txt"} [] pat = "a.txt" -> {"a.txt"} [] pat = "b.txt" -> {"b.txt"}
                      [] pat = "*.md" -> {"c.md"} [] pat = "missing.txt" -> {} [] OTHER -> {}
IsGlob(pat) == pat \in {"*.txt", "*.md"}     \* no pattern here matches the BUILD file itself, whose name necessarily differs per format
InputMenus == { <<>>, <<"a.txt">>, <<"*.txt">>, <<"missing.txt", "*.md", "*.txt">> }
ExcludeMenus == { <<>>, <<"b.txt">> }
DepMenus == { <<>>, <<":u">>, <<"//q:x", ":u">> }
OutMenus == { <<>>, <<"o">>, <<"dir::d", "o">> }
Targets1 == [ name : {"t"}, command : {"run it"}, deps : DepMenus, inputs : InputMenus, excludes : ExcludeMenus, outputs : OutMenus,
              nocache : BOOLEAN, fp : BOOLEAN, platforms : {"unset", "empty", "linux"}, timeout : {"", "5s"}, bin : BOOLEAN ]
Packages == [ t : Targets1, defaultPlatforms : {"unset", "darwin"}, withAlias : BOOLEAN ]

SeqToSet(s) == {s[i] : i \in DOMAIN s}
\* a non-glob input is kept verbatim (even if the file is missing); a glob contributes its matches
Resolved(t) == LET raw == UNION {IF IsGlob(t.inputs[i]) THEN GlobMatches(t.inputs[i]) ELSE {t.inputs[i]} : i \in DOMAIN t.inputs}
                   excl == UNION {GlobMatches(t.excludes[i]) : i \in DOMAIN t.excludes} IN
               IF t.excludes = <<>> THEN raw ELSE raw \ excl
Expected(p) ==
  [ label |-> "//p:" \o p.t.name,
    command |-> p.t.command,
    dependencies |-> { IF d = ":u" THEN "//p:u" ELSE d : d \in SeqToSet(p.t.deps) },   \* relative labels resolve against the package
    inputs |-> Resolved(p.t),
    outputs |-> { IF o = "dir::d" THEN "dir::d" ELSE "file::" \o o : o \in SeqToSet(p.t.outputs) },
    bin_output |-> IF p.t.bin THEN "file::bin" ELSE "",
    tags |-> IF p.t.nocache THEN {"no-cache"} ELSE {},
    fingerprint |-> IF p.t.fp THEN {<<"k", "v">>} ELSE {},
    \* ("empty" = an explicitly empty list: the target specifies its own selectors -- none -- and the package default does not apply)
    platforms |-> IF p.t.platforms = "linux" THEN {"linux/amd64"} ELSE IF p.t.platforms = "empty" THEN {}
                  ELSE IF p.defaultPlatforms = "darwin" THEN {"darwin/arm64"} ELSE {},
    timeout_ms |-> IF p.t.timeout = "5s" THEN 5000 ELSE 0,
    alias |-> IF p.withAlias THEN <<"//p:al", "//p:t">> ELSE <<>> ]

(* ------------------------------------------------------------------ part 2: annotation automaton *)
LineKinds == {"marker", "comment-name", "comment-tags", "comment-badyaml", "blank", "rule", "other"}
LineSeqs == UNION {[1..n -> LineKinds] : n \in 0..MaxLines}
\* result of scanning: [err, names]: an error, or the sequence of target names (annotation name x wins over the rule name r)
Err == [err |-> TRUE, names |-> <<>>]
RECURSIVE Scan(_, _, _, _, _)
Scan(ls, i, collecting, ann, acc) ==     \* ann: [name, bad]; acc: names so far
  IF i > Len(ls) THEN [err |-> FALSE, names |-> acc]
  ELSE LET k == ls[i] IN
    IF ~collecting THEN
       IF k = "marker" THEN Scan(ls, i + 1, TRUE, [name |-> "", bad |-> FALSE, tags |-> FALSE], acc) ELSE Scan(ls, i + 1, FALSE, ann, acc)
    ELSE CASE k = "blank" -> Scan(ls, i + 1, TRUE, ann, acc)
           \* the collected comment lines form one YAML mapping: a key given twice is a YAML error
           [] k = "comment-name" -> Scan(ls, i + 1, TRUE, [ann EXCEPT !.name = "x", !.bad = @ \/ ann.name = "x"], acc)
           [] k = "comment-tags" -> Scan(ls, i + 1, TRUE, [ann EXCEPT !.tags = TRUE, !.bad = @ \/ ann.tags], acc)
           [] k \in {"comment-badyaml", "marker"} -> Scan(ls, i + 1, TRUE, [ann EXCEPT !.bad = TRUE], acc)
           [] k = "rule" -> IF ann.bad THEN Err ELSE Scan(ls, i + 1, FALSE, ann, Append(acc, IF ann.name = "" THEN "r" ELSE ann.name))
           [] k = "other" -> Err
ScanResult(ls) == LET r == Scan(ls, 1, FALSE, [name |-> "", bad |-> FALSE, tags |-> FALSE], <<>>) IN
                  \* duplicate names inside one file are a duplicate-label error at enrichment time
                  IF ~r.err /\ \E i, j \in DOMAIN r.names : i # j /\ r.names[i] = r.names[j] THEN Err ELSE r

VARIABLES kind, val
Init == \/ kind = "package" /\ val \in Packages
        \/ kind = "lines" /\ val \in LineSeqs
Next == UNCHANGED <<kind, val>>
Spec == Init /\ [][Next]_<<kind, val>>
\* theorems of the reference
ExcludeNeverAdds == kind = "package" => Resolved(val.t) \subseteq (UNION {IF IsGlob(val.t.inputs[i]) THEN GlobMatches(val.t.inputs[i]) ELSE {val.t.inputs[i]} : i \in DOMAIN val.t.inputs})
PlatformRule == kind = "package" => (Expected(val).platforms = {} <=> (val.t.platforms = "empty" \/ (val.t.platforms = "unset" /\ val.defaultPlatforms = "unset")))
NoMarkerNoTargets == (kind = "lines" /\ \A i \in DOMAIN val : val[i] # "marker") => ScanResult(val) = [err |-> FALSE, names |-> <<>>]

Export == [ packages |-> SetToSeq({[pkg |-> p, expected |-> Expected(p)] : p \in Packages}),
            lines |-> SetToSeq({[seq |-> ls, result |-> ScanResult(ls)] : ls \in LineSeqs}) ]
ASSUME OutFile = "" \/ JsonSerialize(OutFile, Export)
=============================================================================
