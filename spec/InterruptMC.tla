---- MODULE InterruptMC ----
EXTENDS Interrupt
T3 == {"a", "b", "c"}
\* a <- c, b <- c : two slow roots in parallel and a dependant
FanDeps == [t \in T3 |-> IF t = "c" THEN {"a", "b"} ELSE {}]
WideDeps == [t \in T3 |-> {}]
ChainDeps == [t \in T3 |-> CASE t = "a" -> {} [] t = "b" -> {"a"} [] t = "c" -> {"b"}]
====
