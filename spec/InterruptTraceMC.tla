---- MODULE InterruptTraceMC ----
EXTENDS InterruptTrace
T3 == {"a", "b", "c"}
FanDeps == [t \in T3 |-> IF t = "c" THEN {"a", "b"} ELSE {}]
WideDeps == [t \in T3 |-> {}]
ChainDeps == [t \in T3 |-> CASE t = "a" -> {} [] t = "b" -> {"a"} [] t = "c" -> {"b"}]
TraceFileC == "interrupt_traces.json"
====
