------------------------------ MODULE Analysis ------------------------------
(* C11 -- which build graphs are valid.  Valid(g) is written from the property text (undefined dependency,
   cycle incl. self-reference and through aliases, duplicate label, overlapping outputs of targets not ordered
   by dependency, input escaping its package, output escaping the workspace, non-test target depending on a
   test / testonly target with aliases resolved), independently of internal/analysis.  Every graph of four
   bounded families is one TLC state; the verdicts are exported and replayed into the real loader +
   analysis.BuildGraph + CheckTargetConstraints (binding B3) and, on a sample, into `grog check` / `grog build`. *)
EXTENDS Naturals, Sequences, FiniteSets, SequencesExt, TLC, Json

CONSTANTS OutFile, OutMenu, FamilyASample   \* FamilyASample: 0 = all, k = every k-th graph of family A

(* ------------------------------------------------------------------ family A: dependency structure *)
Ids == {"n1", "n2", "n3"}
Refs == Ids \cup {"zz"}                                  \* zz is a label nobody defines
ANodes == [kind : {"target"}, deps : SUBSET Refs, flag : {"plain", "test", "testonly"}]
          \cup [kind : {"alias"}, actual : Refs]
FamA == [Ids -> ANodes]
Succ(g, n) == IF g[n].kind = "target" THEN g[n].deps \cap Ids ELSE {g[n].actual} \cap Ids
RECURSIVE Reach(_, _, _)
Reach(g, S, seen) == LET new == (UNION {Succ(g, n) : n \in S}) \ seen IN
                     IF new = {} THEN seen ELSE Reach(g, new, seen \cup new)
ReachFrom(g, n) == Reach(g, {n}, {})                      \* nodes reachable by >= 1 edge
Undefined(g) == \E n \in Ids : IF g[n].kind = "target" THEN "zz" \in g[n].deps ELSE g[n].actual = "zz"
Cyclic(g) == \E n \in Ids : n \in ReachFrom(g, n)
RECURSIVE ResolveA(_, _, _)
ResolveA(g, r, fuel) == IF r \notin Ids \/ fuel = 0 THEN "none"
                        ELSE IF g[r].kind = "target" THEN r ELSE ResolveA(g, g[r].actual, fuel - 1)
TestRuleBroken(g) ==
  \E n \in Ids : g[n].kind = "target" /\ \E d \in g[n].deps :
     LET r == ResolveA(g, d, 4) IN
       r # "none" /\ \/ (g[r].flag = "test" /\ g[n].flag # "test")
                     \/ (g[r].flag = "testonly" /\ g[n].flag \notin {"test", "testonly"})
ValidA(g) == ~Undefined(g) /\ ~Cyclic(g) /\ ~TestRuleBroken(g)
ReasonsA(g) == (IF Undefined(g) THEN {"undefined-dependency"} ELSE {}) \cup (IF Cyclic(g) THEN {"cycle"} ELSE {})
               \cup (IF TestRuleBroken(g) THEN {"test-dependency"} ELSE {})

(* ------------------------------------------------------------------ family B: outputs *)
\* three targets: t1, t2 in package p, t3 in the nested package p/d; OutMenu entries are [kind, path (components), abs]
Shapes == {"none", "t2->t1", "t3->t1", "t3->t2->t1", "t2->a->t1"}    \* a is an alias of t1 in package p
Ts == {"t1", "t2", "t3"}
PkgOf(t) == IF t = "t3" THEN <<"p", "d">> ELSE <<"p">>
FamB == [shape : Shapes, out : [Ts -> OutMenu \cup {[kind |-> "none"]}]]
RECURSIVE CleanR(_, _)
CleanR(comps, acc) ==     \* acc: cleaned prefix; "^" marks one level above the workspace root
  IF comps = <<>> THEN acc
  ELSE LET c == Head(comps) IN
       IF c = "." THEN CleanR(Tail(comps), acc)
       ELSE IF c = ".." THEN (IF acc # <<>> /\ acc[Len(acc)] # "^" THEN CleanR(Tail(comps), SubSeq(acc, 1, Len(acc) - 1))
                                                                 ELSE CleanR(Tail(comps), Append(acc, "^")))
       ELSE CleanR(Tail(comps), Append(acc, c))
AbsPath(t, o) == CleanR(PkgOf(t) \o o.path, <<>>)
Escapes(p) == p # <<>> /\ p[1] = "^"
OrderedB(shape, a, b) ==
  LET anc == CASE shape = "none" -> {}
               [] shape = "t2->t1" -> {<<"t2", "t1">>}
               [] shape = "t3->t1" -> {<<"t3", "t1">>}
               [] shape = "t3->t2->t1" -> {<<"t3", "t2">>, <<"t2", "t1">>, <<"t3", "t1">>}
               [] shape = "t2->a->t1" -> {<<"t2", "t1">>} IN
  <<a, b>> \in anc \/ <<b, a>> \in anc
IsPrefixP(a, b) == Len(a) <= Len(b) /\ SubSeq(b, 1, Len(a)) = a
Overlap(g, a, b) ==
  LET oa == g.out[a] ob == g.out[b] IN
  IF oa.kind = "none" \/ ob.kind = "none" \/ oa.abs \/ ob.abs THEN FALSE
  ELSE IF oa.kind = "docker" \/ ob.kind = "docker" THEN oa.kind = ob.kind /\ oa.path = ob.path
  ELSE LET pa == AbsPath(a, oa) pb == AbsPath(b, ob) IN
       CASE oa.kind = "file" /\ ob.kind = "file" -> pa = pb
         [] oa.kind = "dir" /\ ob.kind = "dir" -> IsPrefixP(pa, pb) \/ IsPrefixP(pb, pa)
         [] oa.kind = "dir" /\ ob.kind = "file" -> IsPrefixP(pa, pb)
         [] oa.kind = "file" /\ ob.kind = "dir" -> IsPrefixP(pb, pa)
Conflict(g) == \E a, b \in Ts : a # b /\ ~OrderedB(g.shape, a, b) /\ Overlap(g, a, b)
OutputEscapes(g) == \E t \in Ts : g.out[t].kind \in {"file", "dir"} /\ (g.out[t].abs \/ Escapes(AbsPath(t, g.out[t])))
ValidB(g) == ~Conflict(g) /\ ~OutputEscapes(g)
ReasonsB(g) == (IF Conflict(g) THEN {"output-conflict"} ELSE {}) \cup (IF OutputEscapes(g) THEN {"output-escapes-workspace"} ELSE {})

(* ------------------------------------------------------------------ family C: inputs of one target in package p *)
InMenu == { [path |-> <<"i">>, abs |-> FALSE], [path |-> <<".", "i">>, abs |-> FALSE], [path |-> <<"..", "i">>, abs |-> FALSE],
            [path |-> <<"a", "..", "i">>, abs |-> FALSE], [path |-> <<"a", "..", "..", "i">>, abs |-> FALSE],
            [path |-> <<"i">>, abs |-> TRUE], [path |-> <<"..">>, abs |-> FALSE] }
FamC == SUBSET InMenu
InputEscapes(S) == \E i \in S : i.abs \/ Escapes(CleanR(i.path, <<>>))
ValidC(S) == ~InputEscapes(S)

(* ------------------------------------------------------------------ family D: duplicate labels *)
FamD == { [name |-> "dup-target-target-same-file", valid |-> FALSE], [name |-> "dup-target-alias-same-file", valid |-> FALSE],
          [name |-> "dup-alias-alias-same-file", valid |-> FALSE], [name |-> "dup-target-target-two-files", valid |-> FALSE],
          [name |-> "dup-target-alias-two-files", valid |-> FALSE], [name |-> "same-name-different-packages", valid |-> TRUE],
          [name |-> "same-name-target-and-alias-different-packages", valid |-> TRUE] }

(* ------------------------------------------------------------------ one TLC state per graph *)
VARIABLES fam, g
Init == \/ fam = "A" /\ g \in FamA
        \/ fam = "B" /\ g \in FamB
        \/ fam = "C" /\ g \in FamC
        \/ fam = "D" /\ g \in FamD
Next == UNCHANGED <<fam, g>>
Spec == Init /\ [][Next]_<<fam, g>>
Valid == CASE fam = "A" -> ValidA(g) [] fam = "B" -> ValidB(g) [] fam = "C" -> ValidC(g) [] fam = "D" -> g.valid
\* sanity theorems of the reference itself
AcyclicImpliesNoSelf == (fam = "A" /\ ValidA(g)) => \A n \in Ids : n \notin Succ(g, n)
OrderedNeverConflicts == (fam = "B" /\ g.shape = "t3->t2->t1") => ~Conflict(g)
NoOutputsNoConflict == (fam = "B" /\ \A t \in Ts : g.out[t].kind = "none") => ValidB(g)

ExportA == LET all == SetToSeq(FamA) IN
           [i \in {j \in 1..Len(all) : FamilyASample = 0 \/ j % FamilyASample = 0} |-> [g |-> all[i], valid |-> ValidA(all[i]), reasons |-> ReasonsA(all[i])]]
Export == [ A |-> LET e == ExportA IN SetToSeq({e[i] : i \in DOMAIN e}),
            B |-> SetToSeq({[g |-> x, valid |-> ValidB(x), reasons |-> ReasonsB(x)] : x \in FamB}),
            C |-> SetToSeq({[g |-> SetToSeq(x), valid |-> ValidC(x)] : x \in FamC}),
            D |-> SetToSeq(FamD) ]
ASSUME OutFile = "" \/ JsonSerialize(OutFile, Export)
=============================================================================
