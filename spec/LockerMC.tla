---- MODULE LockerMC ----
EXTENDS Locker
P2 == {"p1", "p2"}
P3 == {"p1", "p2", "p3"}
AllInit == {"nofile", "deadpid", "empty", "garbage"}
====
