---- MODULE WalkerTraceMC ----
EXTENDS WalkerTrace
TraceFileC == "walker_traces.json"
====
