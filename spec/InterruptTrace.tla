--------------------------- MODULE InterruptTrace ---------------------------
(* Trace validation for C18: the events of real interrupted `grog build` processes (hook events in seq order, the shell
   trace, the exit status) must be behaviours of Interrupt.tla.  Many traces are concatenated; a step the specification
   cannot take is reported with the reason and the remaining traces are still checked. *)
EXTENDS Interrupt, Json, TLCExt

CONSTANT TraceFile
Traces == JsonDeserialize(TraceFile)
VARIABLES ti, l
tvars == <<vars, ti, l>>
Ev == Traces[ti].ev[l]
Is(a) == ti <= Len(Traces) /\ l <= Len(Traces[ti].ev) /\ Ev.a = a
Adv == l' = l + 1 /\ ti' = ti
TInit == Init /\ ti = 1 /\ l = 1
Reset == /\ phase' = "loading" /\ signalled' = FALSE /\ cmd' = [t \in Targets |-> "idle"] /\ result' = [t \in Targets |-> FALSE]
         /\ lockHeld' = FALSE /\ exitCode' = 99
NextTrace == ti' = ti + 1 /\ l' = 1 /\ Reset
TCore ==
  \/ Is("Signal") /\ Signal /\ Adv
  \/ Is("AcquireLock") /\ AcquireLock /\ Adv
  \/ Is("StartCmd") /\ StartCmd(Ev.t) /\ Adv
  \/ Is("RefuseCmd") /\ RefuseCmd(Ev.t) /\ Adv
  \/ Is("EndCmd") /\ EndCmd(Ev.t) /\ Adv
  \/ Is("KillCmd") /\ KillCmd(Ev.t) /\ Adv
  \/ Is("WriteResult") /\ WriteResult(Ev.t) /\ Adv
  \/ Is("Exit") /\ Exit(Ev.code) /\ Adv
  \/ ti <= Len(Traces) /\ l = Len(Traces[ti].ev) + 1 /\ NextTrace
Stuck == ti <= Len(Traces) /\ ~ENABLED TCore
TNext == TCore \/ (Stuck /\ NextTrace)
TSpec == TInit /\ [][TNext]_tvars
S(c, n) == IF c THEN {n} ELSE {}
Why == CASE Ev.a = "StartCmd" -> S(signalled, "command-started-after-signal") \cup S(cmd[Ev.t] # "idle", "command-started-twice")
                                   \cup S(\E d \in Deps[Ev.t] : cmd[d] # "done", "command-started-before-dependency-finished") \cup S(phase # "running", "command-started-without-lock")
         [] Ev.a = "WriteResult" -> S(cmd[Ev.t] # "done", "cache-entry-for-interrupted-target") \cup S(result[Ev.t], "result-written-twice")
         [] Ev.a = "Exit" -> S(Ev.code = 0 /\ ~AllDone, "exit-zero-although-interrupted") \cup S(\E t \in Targets : cmd[t] = "running", "exit-with-running-command")
                               \cup S(Ev.code # 0 /\ ~signalled /\ phase = "running" /\ AllDone, "exit-nonzero-without-cause")
         [] Ev.a = "KillCmd" -> S(~signalled, "command-cancelled-without-signal") \cup S(cmd[Ev.t] # "running", "cancel-of-command-not-running")
         [] OTHER -> {"unexpected-" \o Ev.a}
Diag == /\ NoResultForInterrupted \/ PrintT(<<"INV", "NoResultForInterrupted", ti, l>>)
        /\ LockReleasedAtExit \/ PrintT(<<"INV", "LockReleasedAtExit", ti, l>>)
        /\ Stuck => PrintT(<<"WHY", ti, l, Ev.a, Why>>)
HighWater == TLCSet(1, IF ti > TLCGet(1) THEN ti ELSE TLCGet(1))
ASSUME TLCSet(1, 0)
Accepted == TLCGet(1) = Len(Traces) + 1
=============================================================================
