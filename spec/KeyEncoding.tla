---------------------------- MODULE KeyEncoding ----------------------------
(* C09 -- cache keys are canonical.  The abstract key state, the byte stream the hashing code feeds the
   hasher (Enc, length-framed as internal/hashing/hash_target.go writes it), and the theorem
       Enc(s1) = Enc(s2)  <=>  s1 = s2          (abstract states already forget order)
   on a bounded universe built so that every boundary-shift pair between adjacent components exists:
   label/command, command/inputs, a list element containing the separator, key/value of fingerprints,
   end of one file / start of the next, declared-but-absent files.  EncAsIs is the encoding of the pinned
   tree (components written back to back, lists joined with ",", k=v, raw file bytes): kept as the
   documented counter-model (TLC shows it is not injective).

   Every abstract state is exported and hashed with the real hashing.GetTargetChangeHash under xxh3 and
   sha256 (binding B3): the partition of the universe by real key must be the identity partition, and
   permuting declaration order, map iteration and the workspace location must not change a key. *)
EXTENDS Naturals, Sequences, FiniteSets, SequencesExt, TLC, Json

CONSTANTS Labels, Cmds, Names, DeclSets, Contents, FpKeys, FpVals, OutSets, Platforms, DepSets, OutFile

\* byte order of the strings used (Go sorts by bytes): rank tables for the menus
Rank(s) == CASE s = "" -> 0 [] s = "a" -> 10 [] s = "a,b" -> 11 [] s = "ab" -> 12 [] s = "b" -> 13
             [] s = "k" -> 20 [] s = "k=v" -> 21 [] s = "platform" -> 33 [] s = "o" -> 30 [] s = "o,p" -> 31 [] s = "p" -> 32
             [] s = "h1" -> 40 [] s = "h2" -> 41 [] s = "w" -> 60 [] s = "file::o" -> 50 [] s = "file::o,p" -> 51 [] s = "file::p" -> 52
             [] OTHER -> 99
Sorted(S) == SetToSortSeq(S, LAMBDA x, y : Rank(x) < Rank(y))

\* the declared input names (a subset of Names) with the content of each, or ABSENT (declared but not on disk)
FileMaps == UNION {[d -> Contents \cup {"ABSENT"}] : d \in DeclSets}
Fps == {S \in SUBSET (FpKeys \X FpVals) : \A e1, e2 \in S : e1[1] = e2[1] => e1 = e2}
States == [label : Labels, cmd : Cmds, files : FileMaps, outs : OutSets, fp : Fps, platform : Platforms, deps : DepSets]

Declared(s) == DOMAIN s.files
Present(s) == {n \in DOMAIN s.files : s.files[n] # "ABSENT"}      \* absent files are skipped by the hashing code

RECURSIVE Join(_, _)
Join(seq, sep) == IF seq = <<>> THEN "" ELSE IF Len(seq) = 1 THEN seq[1] ELSE seq[1] \o sep \o Join(Tail(seq), sep)
RECURSIVE Cat(_)
Cat(seq) == IF seq = <<>> THEN "" ELSE seq[1] \o Cat(Tail(seq))
Map(seq, Op(_)) == [i \in 1..Len(seq) |-> Op(seq[i])]

Fr(str) == ToString(Len(str)) \o ":" \o str                       \* writeField
FrList(seq) == ToString(Len(seq)) \o "[" \o Cat(Map(seq, Fr))      \* writeList
FpSeq(s) == LET ks == Sorted({e[1] : e \in s.fp}) IN
            [i \in 1..(2 * Len(ks)) |-> IF i % 2 = 1 THEN ks[(i + 1) \div 2]
                                         ELSE (CHOOSE e \in s.fp : e[1] = ks[i \div 2])[2]]
OutDefs(s) == {"file::" \o o : o \in s.outs}

\* what the abstract state contributes to the key: absent files contribute nothing (they are still declared names)
Enc(s) ==
  << Fr(s.label) \o Fr(s.cmd) \o FrList(Sorted(Declared(s))) \o FrList(Sorted(OutDefs(s))) \o FrList(Sorted(s.deps))
       \o FrList(FpSeq(s)) \o (IF s.platform = "mp" THEN "" ELSE Fr(s.platform)),
     Cat(Map(Sorted(Present(s)), LAMBDA n : Fr(n) \o Fr("H(" \o s.files[n] \o ")"))) >>

EncAsIs(s) ==
  << s.label \o s.cmd \o Join(Sorted(Declared(s)), ",") \o Join(Sorted(OutDefs(s)), ",") \o Join(Sorted(s.deps), ",")
       \o Join(Map(Sorted({e[1] \o "=" \o e[2] : e \in s.fp}), LAMBDA x : x), ",") \o (IF s.platform = "mp" THEN "" ELSE s.platform),
     Cat(Map(Sorted(Present(s)), LAMBDA n : s.files[n])) >>

\* two states are the same build state iff they agree on everything the property lists; an absent input file and
\* "no such pair" are the same thing, which is already how States represents it (content ABSENT)
Canonical == Cardinality({Enc(s) : s \in States}) = Cardinality(States)
AsIsCollides == Cardinality({EncAsIs(s) : s \in States}) < Cardinality(States)

(* the enumeration as a state machine: one state per abstract key state; the step re-declares it in another order *)
VARIABLES st, perm
Init == st \in States /\ perm = 0
Next == perm = 0 /\ perm' = 1 /\ st' = st
Spec == Init /\ [][Next]_<<st, perm>>
\* every state obtained from st by changing exactly one component has a different encoding (the global statement is Canonical)
Neighbours(t) ==
     {[t EXCEPT !.label = l] : l \in Labels \ {t.label}} \cup {[t EXCEPT !.cmd = c] : c \in Cmds \ {t.cmd}}
     \cup {[t EXCEPT !.files[n] = c] : n \in DOMAIN t.files, c \in (Contents \cup {"ABSENT"})} \cup {[t EXCEPT !.files = f] : f \in FileMaps} \cup {[t EXCEPT !.outs = o] : o \in OutSets}
     \cup {[t EXCEPT !.fp = f] : f \in Fps} \cup {[t EXCEPT !.platform = p] : p \in Platforms} \cup {[t EXCEPT !.deps = d] : d \in DepSets}
NeighboursDiffer == \A u \in Neighbours(st) \ {st} : Enc(u) # Enc(st)

ASSUME PrintT(<<"KEYSTATS", Cardinality(States), Cardinality({Enc(s) : s \in States}), Cardinality({EncAsIs(s) : s \in States})>>)
ASSUME Canonical
ASSUME OutFile = "" \/ JsonSerialize(OutFile,
   SetToSeq({ [label |-> s.label, cmd |-> s.cmd, files |-> [n \in Present(s) |-> s.files[n]], names |-> Sorted(Declared(s)),
               outs |-> Sorted(s.outs), fp |-> SetToSeq(s.fp), platform |-> s.platform, deps |-> Sorted(s.deps),
               enc |-> Enc(s)[1] \o "|" \o Enc(s)[2], asis |-> EncAsIs(s)[1] \o "|" \o EncAsIs(s)[2]] : s \in States }))
=============================================================================
