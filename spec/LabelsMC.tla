---- MODULE LabelsMC ----
EXTENDS Labels
CurPkgP == <<"p">>
CurPkgPQ == <<"p", "/", "q">>
CurPkgRoot == <<>>
CurPkgOdd == <<"a", ".", "/", "2">>
OutFileC == "labels_export.json"
====
