------------------------------- MODULE DirLoad -------------------------------
(* C04 / C06 -- DirectoryOutputHandler.Load as the code runs it: one goroutine per file sending failures into
   errChan, the caller in WaitGroup.Wait before it drains, with CAS read faults on any subset of the files.
   Cap is the channel capacity; the pinned tree used the number of distinct child directories (0 for a flat
   directory), which deadlocks as soon as more goroutines fail than the buffer holds; the repaired code keeps
   the first error with a non-blocking send into a buffer of one. *)
EXTENDS Naturals, FiniteSets, TLC

CONSTANTS NFiles, Cap, NonBlockingSend
FileIds == 1..NFiles
VARIABLES fault, gpc, chan, main, outcome
lvars == <<fault, gpc, chan, main, outcome>>
LInit == /\ fault \in SUBSET FileIds
         /\ gpc = [f \in FileIds |-> "unspawned"] /\ chan = 0 /\ main = "spawning" /\ outcome = "none"
Spawn(f) == /\ main = "spawning" /\ gpc[f] = "unspawned"
            /\ gpc' = [gpc EXCEPT ![f] = "running"] /\ UNCHANGED <<fault, chan, main, outcome>>
SpawnDone == /\ main = "spawning" /\ \A f \in FileIds : gpc[f] # "unspawned"
             /\ main' = "waiting" /\ UNCHANGED <<fault, gpc, chan, outcome>>
Download(f) == /\ gpc[f] = "running"
               /\ gpc' = [gpc EXCEPT ![f] = IF f \in fault THEN "sending" ELSE "done"]
               /\ UNCHANGED <<fault, chan, main, outcome>>
\* errChan <- err : blocks while the buffer is full (nobody receives before WaitGroup.Wait returns)
Send(f) == /\ gpc[f] = "sending"
           /\ \/ chan < Cap /\ chan' = chan + 1
              \/ chan >= Cap /\ NonBlockingSend /\ chan' = chan
           /\ gpc' = [gpc EXCEPT ![f] = "done"] /\ UNCHANGED <<fault, main, outcome>>
WaitReturns == /\ main = "waiting" /\ \A f \in FileIds : gpc[f] = "done"
               /\ main' = "returned" /\ outcome' = (IF chan > 0 THEN "error" ELSE "ok")
               /\ UNCHANGED <<fault, gpc, chan>>
LDone == main = "returned" /\ UNCHANGED lvars
LNext == (\E f \in FileIds : Spawn(f) \/ Download(f) \/ Send(f)) \/ SpawnDone \/ WaitReturns \/ LDone
LSpec == LInit /\ [][LNext]_lvars
\* a restore with a fault reports an error, one without reports success
FaultIsError == main = "returned" => (outcome = "error" <=> fault # {})
LoadTerminates == <>(main = "returned")
LFairSpec == LSpec /\ WF_lvars(LNext)
=============================================================================
