------------------------------ MODULE Selection ------------------------------
(* C12 -- what a build or test invocation selects: the targets matching one of the patterns and the tag,
   exclude-tag, test/non-test and platform filters, plus all of their transitive dependencies followed through
   aliases; a selected target with a platform-incompatible dependency is an error.  Written from the property
   and docs, independently of internal/selection.  Every (graph, invocation) pair is one TLC state; the expected
   selections are exported and replayed into the real selection.Selector (binding B3) and, on a sample, into the
   CLI with an empty cache (exactly the selected targets' commands must run).

   Out of domain (DESIGN.md section 7, C12): an alias matched by a pattern whose actual target does not itself pass the
   type / tag / platform filters -- the documentation does not settle it; such cases are exported as "undefined". *)
EXTENDS Naturals, Sequences, FiniteSets, SequencesExt, TLC, Json

CONSTANTS OutFile, DepChoice   \* DepChoice: "all" (64 dependency shapes) or "some" (16)

N == {"n1", "n2", "n3", "r"}
\* layout "root": r lives in the workspace's root package (label //:r)
Pkg(g, n) == CASE n = "n3" -> <<"p", "q">> [] n = "r" -> (IF g.layout = "root" THEN <<>> ELSE <<"r">>) [] OTHER -> <<"p">>
Before == [n \in N |-> CASE n = "n1" -> {} [] n = "n2" -> {"n1"} [] n = "n3" -> {"n1", "n2"} [] n = "r" -> {"n1", "n2", "n3"}]

DepFns == {d \in [N -> SUBSET N] : \A n \in N : d[n] \subseteq Before[n]}
DepShapes == IF DepChoice = "all" THEN DepFns
             ELSE {d \in DepFns : d["n2"] = {"n1"} => TRUE} \cap {d \in DepFns : Cardinality(d["r"]) <= 1 \/ d["r"] = {"n1", "n2", "n3"}}
Plats == { [n1 |-> "any", r |-> "any"], [n1 |-> "host", r |-> "any"], [n1 |-> "other", r |-> "any"], [n1 |-> "any", r |-> "other"] }
\* valid graphs only (C11): acyclic, and no non-test target depends -- directly or through the alias -- on a test target
ResolvedDeps0(g, n) == {IF d = "n2" /\ g.alias2 # "none" THEN g.alias2 ELSE d : d \in (IF n = "n2" /\ g.alias2 # "none" THEN {} ELSE g.deps[n])}
Graphs == { g \in [alias2 : {"none", "n1", "n3"}, deps : DepShapes, tag : {{}, {"n1"}, {"n3"}}, test : {{}, {"n3"}, {"r"}}, plat : Plats,
                    layout : {"std", "root"}] :
              /\ g.layout = "root" => (g.tag = {} /\ g.plat = [n1 |-> "any", r |-> "any"])     \* (the layout is about patterns only)
              /\ g.alias2 = "n3" => "n2" \notin g.deps["n3"]
              /\ \A n \in N : \A d \in ResolvedDeps0(g, n) : d \in g.test => n \in g.test }

IsAlias(g, n) == n = "n2" /\ g.alias2 # "none"
DepsOf(g, n) == IF IsAlias(g, n) THEN {g.alias2} ELSE g.deps[n]
Name(g, n) == IF n \in g.test THEN n \o "test" ELSE n
IsTest(g, n) == n \in g.test
PlatOK(g, n, allp) == allp \/ IsAlias(g, n) \/ n \notin {"n1", "r"} \/ g.plat[n] \in {"any", "host"}

\* patterns: [str (what is typed, current package p), prefix (package components), rec, name ("" = any)]
P(str, prefix, rec, name) == [str |-> str, prefix |-> prefix, rec |-> rec, name |-> name]
PatternSets == { {P("//...", <<>>, TRUE, "")}, {P("//p/...", <<"p">>, TRUE, "")}, {P("//p:all", <<"p">>, FALSE, "")},
                 {P("//p:n1", <<"p">>, FALSE, "n1")}, {P(":n1", <<"p">>, FALSE, "n1")}, {P("//r", <<"r">>, FALSE, "r")},
                 {P("//p/q/...", <<"p", "q">>, TRUE, "")}, {P("//p:n2", <<"p">>, FALSE, "n2")},
                 {P("//p:n1", <<"p">>, FALSE, "n1"), P("//r", <<"r">>, FALSE, "r")}, {P("//p/...:n3", <<"p">>, TRUE, "n3")},
                 {P(":all", <<"p">>, FALSE, "")}, {P("//...:n1", <<>>, TRUE, "n1")}, {P("//...:all", <<>>, TRUE, "")},
                 \* the root package, non-recursively: exactly the targets of the root package
                 {P("//:all", <<>>, FALSE, "")}, {P("//:r", <<>>, FALSE, "r")}, {P("//:n1", <<>>, FALSE, "n1")} }
IsPrefixSeq(a, b) == Len(a) <= Len(b) /\ SubSeq(b, 1, Len(a)) = a
PatMatches(g, pt, n) == /\ IF pt.rec THEN IsPrefixSeq(pt.prefix, Pkg(g, n)) ELSE Pkg(g, n) = pt.prefix
                        /\ pt.name = "" \/ pt.name = Name(g, n)
Invocations == [pats : PatternSets, tagf : {"none", "want-t1", "exclude-t1"}, type : {"build", "test"}, allp : BOOLEAN]

HasT1(g, n) == n \in g.tag
\* does node n pass the filters of invocation i (aliases: patterns only)
Passes(g, i, n) ==
  /\ \E pt \in i.pats : PatMatches(g, pt, n)
  /\ IsAlias(g, n) \/
       ( /\ (i.type = "test") = IsTest(g, n)
         /\ (i.tagf = "want-t1" => HasT1(g, n)) /\ (i.tagf = "exclude-t1" => ~HasT1(g, n)) )
Roots(g, i) == {n \in N : Passes(g, i, n) /\ PlatOK(g, n, i.allp)}
RECURSIVE Closure(_, _)
Closure(g, S) == LET nxt == S \cup UNION {DepsOf(g, n) : n \in S} IN IF nxt = S THEN S ELSE Closure(g, nxt)
\* the transitive dependencies of the roots (the roots themselves were platform-filtered, their dependencies must be compatible)
DepsStar(g, S) == Closure(g, UNION {DepsOf(g, n) : n \in S})
PlatformError(g, i) == \E n \in DepsStar(g, Roots(g, i)) : ~PlatOK(g, n, i.allp)
SelectedTargets(g, i) == {n \in Closure(g, Roots(g, i)) : ~IsAlias(g, n)}
\* out of the property's domain: a matched alias whose (resolved) target does not pass the filters itself
Undefined(g, i) == IsAlias(g, "n2") /\ (\E pt \in i.pats : PatMatches(g, pt, "n2")) /\
                   LET a == g.alias2 IN ~( (i.type = "test") = IsTest(g, a) /\ (i.tagf = "want-t1" => HasT1(g, a))
                                           /\ (i.tagf = "exclude-t1" => ~HasT1(g, a)) /\ PlatOK(g, a, i.allp) )
Result(g, i) == IF Undefined(g, i) THEN [kind |-> "undefined", sel |-> {}]
                ELSE IF PlatformError(g, i) THEN [kind |-> "error", sel |-> {}] ELSE [kind |-> "ok", sel |-> SelectedTargets(g, i)]

VARIABLES g, inv
Init == g \in Graphs /\ inv \in Invocations
Next == UNCHANGED <<g, inv>>
Spec == Init /\ [][Next]_<<g, inv>>
\* theorems of the reference: the selection is dependency-closed (the walker's precondition) and contains nothing else
ClosedUnderDeps == LET S == Closure(g, Roots(g, inv)) IN \A n \in S : DepsOf(g, n) \subseteq S
NothingElse == \A n \in SelectedTargets(g, inv) : n \in Roots(g, inv) \/ \E m \in Roots(g, inv) : n \in DepsStar(g, {m})
AllPlatformsNeverErrors == inv.allp => ~PlatformError(g, inv)

InvSeq == SetToSeq(Invocations)
Export == [ invocations |-> [k \in 1..Len(InvSeq) |-> [pats |-> {pt.str : pt \in InvSeq[k].pats}, tagf |-> InvSeq[k].tagf, type |-> InvSeq[k].type, allp |-> InvSeq[k].allp]],
            graphs |-> SetToSeq({ [g |-> [alias2 |-> x.alias2, deps |-> x.deps, tag |-> x.tag, test |-> x.test, plat |-> x.plat, layout |-> x.layout],
                                   results |-> [k \in 1..Len(InvSeq) |-> Result(x, InvSeq[k])]] : x \in Graphs }) ]
ASSUME OutFile = "" \/ JsonSerialize(OutFile, Export)
=============================================================================
