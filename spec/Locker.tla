------------------------------- MODULE Locker -------------------------------
(* C10 -- at most one grog build runs in a workspace; stale locks are recovered.  The workspace lock protocol of
   internal/locking/workspace_locker.go, one action per file-system call of Lock / Unlock (these are exactly the gates
   the real processes are stepped through), for several OS processes and crashes between any two steps.

   The lock path holds an inode or nothing; an inode has a content (the informational PID) and an flock owner.
   Lock:   open(O_CREATE) -> flock(LOCK_EX|LOCK_NB) -> [verify that the path still names the inode we locked] -> write pid
           (would-block: read the pid, close, sleep, retry;  verify fails: close, retry)
   Unlock: remove(path) -> close (drops the flock)
   A crash closes the process's descriptors (the kernel drops its flock) and leaves the file behind.

   Protocol = "flock" is the implementation; "pidfile" is the protocol of the pinned tree (exclusive create, write pid,
   readers judge empty / unparsable / dead-pid files stale and remove them), kept as the documented counter-model: TLC
   finds both two-holder schedules in it. *)
EXTENDS Naturals, FiniteSets, Sequences, TLC

CONSTANTS Procs, Protocol, InitFiles, MaxCrashes, MaxIno,
          AllowClean   \* TRUE: `grog clean` (which removes the workspace directory without taking the lock) may run at any time
Inos == 1..MaxIno
None == "none"

VARIABLES path,      \* inode at the lock path, 0 = no file
          content,   \* per inode: "empty" | "garbage" | "deadpid" | a process
          owner,     \* per inode: flock owner or None
          nextIno, pc, fd, seen, alive, crashes,
          foreign    \* history: some process removed a lock file that was not the one it held
vars == <<path, content, owner, nextIno, pc, fd, seen, alive, crashes, foreign>>

Init == /\ \E f \in InitFiles :
             IF f = "nofile" THEN /\ path = 0 /\ content = [i \in Inos |-> "empty"] /\ nextIno = 1
                             ELSE /\ path = 1 /\ content = [i \in Inos |-> IF i = 1 THEN f ELSE "empty"] /\ nextIno = 2
        /\ owner = [i \in Inos |-> None]
        /\ pc = [p \in Procs |-> "start"] /\ fd = [p \in Procs |-> 0] /\ seen = [p \in Procs |-> "none"]
        /\ alive = Procs /\ crashes = 0 /\ foreign = FALSE

Goto(p, l) == pc' = [pc EXCEPT ![p] = l]

(* ---------------------------------------------------------------- flock protocol (the implementation) *)
Open(p) == /\ Protocol = "flock" /\ pc[p] = "start"
           /\ IF path = 0
                THEN /\ nextIno <= MaxIno /\ path' = nextIno /\ nextIno' = nextIno + 1 /\ fd' = [fd EXCEPT ![p] = nextIno]
                ELSE /\ fd' = [fd EXCEPT ![p] = path] /\ UNCHANGED <<path, nextIno>>
           /\ Goto(p, "flock") /\ UNCHANGED <<content, owner, seen, alive, crashes, foreign>>
Flock(p) == /\ pc[p] = "flock"
            /\ IF owner[fd[p]] = None
                 THEN owner' = [owner EXCEPT ![fd[p]] = p] /\ Goto(p, "verify")
                 ELSE UNCHANGED owner /\ Goto(p, "read")
            /\ UNCHANGED <<path, content, nextIno, fd, seen, alive, crashes, foreign>>
Verify(p) == /\ pc[p] = "verify"
             /\ IF path = fd[p]
                  THEN Goto(p, "write") /\ UNCHANGED <<owner, fd>>
                  ELSE owner' = [owner EXCEPT ![fd[p]] = None] /\ fd' = [fd EXCEPT ![p] = 0] /\ Goto(p, "start")
             /\ UNCHANGED <<path, content, nextIno, seen, alive, crashes, foreign>>
Write(p) == /\ pc[p] = "write" /\ content' = [content EXCEPT ![fd[p]] = p] /\ Goto(p, "held")
            /\ UNCHANGED <<path, owner, nextIno, fd, seen, alive, crashes, foreign>>
Read(p) == /\ pc[p] = "read" /\ Protocol = "flock"
           /\ seen' = [seen EXCEPT ![p] = IF path = 0 THEN "nofile" ELSE content[path]]
           /\ fd' = [fd EXCEPT ![p] = 0] /\ Goto(p, "sleep")
           /\ UNCHANGED <<path, content, owner, nextIno, alive, crashes, foreign>>
Sleep(p) == /\ pc[p] = "sleep" /\ Goto(p, "start") /\ UNCHANGED <<path, content, owner, nextIno, fd, seen, alive, crashes, foreign>>
\* the critical section ends: the build calls Unlock
ExitCS(p) == /\ pc[p] = "held" /\ Goto(p, "unlocking") /\ UNCHANGED <<path, content, owner, nextIno, fd, seen, alive, crashes, foreign>>
UnlockRemove(p) == /\ Protocol = "flock" /\ pc[p] = "unlocking"
                   /\ foreign' = (foreign \/ (path # 0 /\ path # fd[p]))
                   /\ path' = 0 /\ Goto(p, "closing")
                   /\ UNCHANGED <<content, owner, nextIno, fd, seen, alive, crashes>>
UnlockClose(p) == /\ pc[p] = "closing" /\ owner' = [owner EXCEPT ![fd[p]] = None] /\ fd' = [fd EXCEPT ![p] = 0] /\ Goto(p, "done")
                  /\ UNCHANGED <<path, content, nextIno, seen, alive, crashes, foreign>>

(* ---------------------------------------------------------------- pid-file protocol (the pinned tree; counter-model) *)
PCreate(p) == /\ Protocol = "pidfile" /\ pc[p] = "start"
              /\ IF path = 0
                   THEN /\ nextIno <= MaxIno /\ path' = nextIno /\ nextIno' = nextIno + 1
                        /\ fd' = [fd EXCEPT ![p] = nextIno] /\ Goto(p, "pwrite")
                   ELSE /\ Goto(p, "pread") /\ UNCHANGED <<path, nextIno, fd>>
              /\ UNCHANGED <<content, owner, seen, alive, crashes, foreign>>
PWrite(p) == /\ pc[p] = "pwrite" /\ content' = [content EXCEPT ![fd[p]] = p] /\ Goto(p, "held")
             /\ UNCHANGED <<path, owner, nextIno, fd, seen, alive, crashes, foreign>>
PRead(p) == /\ pc[p] = "pread"
            /\ IF path = 0 THEN Goto(p, "premove") /\ UNCHANGED seen
                           ELSE seen' = [seen EXCEPT ![p] = content[path]] /\ Goto(p, "pprobe")
            /\ UNCHANGED <<path, content, owner, nextIno, fd, alive, crashes, foreign>>
PProbe(p) == /\ pc[p] = "pprobe" /\ Goto(p, IF seen[p] \in alive THEN "sleep" ELSE "premove")
             /\ UNCHANGED <<path, content, owner, nextIno, fd, seen, alive, crashes, foreign>>
PRemove(p) == /\ pc[p] = "premove" /\ foreign' = (foreign \/ (path # 0 /\ content[path] \in alive)) /\ path' = 0 /\ Goto(p, "start")
              /\ UNCHANGED <<content, owner, nextIno, fd, seen, alive, crashes>>
PUnlock(p) == /\ Protocol = "pidfile" /\ pc[p] = "unlocking" /\ path' = 0 /\ Goto(p, "done")
              /\ foreign' = (foreign \/ (path # 0 /\ path # fd[p]))
              /\ UNCHANGED <<content, owner, nextIno, fd, seen, alive, crashes>>

Crash(p) == /\ crashes < MaxCrashes /\ p \in alive /\ pc[p] # "done"
            /\ alive' = alive \ {p} /\ crashes' = crashes + 1 /\ Goto(p, "crashed")
            /\ owner' = [i \in Inos |-> IF owner[i] = p THEN None ELSE owner[i]]   \* the kernel closes its descriptors
            /\ fd' = [fd EXCEPT ![p] = 0]
            /\ UNCHANGED <<path, content, nextIno, seen, foreign>>

\* `grog clean`: os.RemoveAll of the directory holding the lock file, by a process that is not a contender
Clean == /\ AllowClean /\ path # 0 /\ path' = 0
         /\ UNCHANGED <<content, owner, nextIno, pc, fd, seen, alive, crashes, foreign>>

Step(p) == Open(p) \/ Flock(p) \/ Verify(p) \/ Write(p) \/ Read(p) \/ Sleep(p) \/ ExitCS(p) \/ UnlockRemove(p) \/ UnlockClose(p)
           \/ PCreate(p) \/ PWrite(p) \/ PRead(p) \/ PProbe(p) \/ PRemove(p) \/ PUnlock(p)
Terminal == \A p \in Procs : pc[p] \in {"done", "crashed"}
Next == (\E p \in Procs : Step(p) \/ Crash(p)) \/ Clean \/ (Terminal /\ UNCHANGED vars)
Spec == Init /\ [][Next]_vars
FairSpec == Spec /\ \A p \in Procs : WF_vars(Step(p))

Holders == {p \in Procs : pc[p] = "held"}
Mutex == Cardinality(Holders) <= 1
NoForeignUnlink == ~foreign
\* whoever is past acquisition really owns the flock of the file at the lock path
HolderOwnsPath == \A p \in Holders : Protocol = "flock" => (fd[p] # 0 /\ owner[fd[p]] = p)
\* a waiter proceeds once the holder releases or dies, a stale file never blocks: everybody finishes (or crashed)
AllFinish == <>Terminal
=============================================================================
