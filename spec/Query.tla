-------------------------------- MODULE Query --------------------------------
(* C20 -- deps / rdeps / owners / list agree with the graph.  Same graph universe as Selection.tla (4 nodes, an
   optional alias, test names).  Dependencies are taken on the node graph (an alias is a node that depends on its
   actual target), direct or transitive, each label once; rdeps is the inverse relation; owners(f) are the targets
   whose resolved inputs contain f; list is the pattern + type matches.  TLC checks the inverse theorems in every
   state and exports the expected answers; the harness compares them with the stdout of the real commands. *)
EXTENDS Selection

QDeps(gr, n) == DepsOf(gr, n)
QTDeps(gr, n) == Closure(gr, DepsOf(gr, n))
QRdeps(gr, n) == {m \in N : n \in DepsOf(gr, m)}
RECURSIVE RClosure(_, _)
RClosure(gr, S) == LET nxt == S \cup UNION {QRdeps(gr, n) : n \in S} IN IF nxt = S THEN S ELSE RClosure(gr, nxt)
QTRdeps(gr, n) == RClosure(gr, QRdeps(gr, n))
TypeOKFor(gr, n, ty) == IsAlias(gr, n) \/ ty = "all" \/ (ty = "test") = IsTest(gr, n)

\* input files: n1 {p/a.txt}, n2 {p/a.txt, p/b.txt} (when it is a target), n3 {p/q/c.txt}, r the glob *.txt over r/x.txt, r/y.txt
FilesQ == {"p/a.txt", "p/b.txt", "p/q/c.txt", "r/x.txt", "r/y.txt", "p/zzz.txt"}
Owners(gr, f) == {n \in N : ~IsAlias(gr, n) /\
                    \/ n = "n1" /\ f = "p/a.txt"
                    \/ n = "n2" /\ f \in {"p/a.txt", "p/b.txt"}
                    \/ n = "n3" /\ f = "p/q/c.txt"
                    \/ n = "r" /\ f \in {"r/x.txt", "r/y.txt"}}
ListOf(gr, pats, ty) == {n \in N : (\E pt \in pats : PatMatches(gr, pt, n)) /\ TypeOKFor(gr, n, ty)}

\* theorems, evaluated in every state (g, inv come from Selection's state machine)
DepsRdepsInverse == \A n, m \in N : (m \in QDeps(g, n) <=> n \in QRdeps(g, m)) /\ (m \in QTDeps(g, n) <=> n \in QTRdeps(g, m))
TransitiveContainsDirect == \A n \in N : QDeps(g, n) \subseteq QTDeps(g, n) /\ n \notin QTDeps(g, n)
\* what a change of f can invalidate: its owners and everything that transitively depends on them
Affected(gr, f) == Owners(gr, f) \cup UNION {QTRdeps(gr, o) : o \in Owners(gr, f)}

\* `grog changes --since=<ref>`: the targets owning a changed file, optionally with their transitive dependants (targets only)
Changes(gr, f, transitive) == LET base == Owners(gr, f) IN
                              {n \in (IF transitive THEN Affected(gr, f) ELSE base) : ~IsAlias(gr, n)}
\* ... filtered by --target-type after the dependants have been added (a changed library that is filtered out still brings its tests in)
Tys == {"all", "test", "no_test"}
ChangesTy(gr, f, transitive, ty) == {n \in Changes(gr, f, transitive) : TypeOKFor(gr, n, ty)}
ChangesWithinAffected == \A f \in FilesQ : Changes(g, f, FALSE) \subseteq Changes(g, f, TRUE) /\ Changes(g, f, TRUE) \subseteq Affected(g, f)
QGraphs == { x \in Graphs : x.tag = {} /\ x.plat = [n1 |-> "any", r |-> "any"] /\ x.layout = "std" }
\* one TLC state per query graph (the invocation component of Selection's state is irrelevant here)
QInit == g \in QGraphs /\ inv = CHOOSE i \in Invocations : TRUE
QSpec == QInit /\ [][Next]_<<g, inv>>
PatSeq == SetToSeq(PatternSets)
QExport ==
  [ patterns |-> [k \in 1..Len(PatSeq) |-> {pt.str : pt \in PatSeq[k]}],
    graphs |-> SetToSeq({ [ g |-> [alias2 |-> x.alias2, deps |-> x.deps, tag |-> x.tag, test |-> x.test, plat |-> x.plat],
        deps |-> [n \in N |-> QDeps(x, n)], tdeps |-> [n \in N |-> QTDeps(x, n)],
        rdeps |-> [n \in N |-> QRdeps(x, n)], trdeps |-> [n \in N |-> QTRdeps(x, n)],
        tests |-> x.test, aliases |-> {n \in N : IsAlias(x, n)},
        owners |-> [f \in FilesQ |-> Owners(x, f)], affected |-> [f \in FilesQ |-> Affected(x, f)],
        changes |-> [f \in FilesQ |-> [direct |-> [ty \in Tys |-> ChangesTy(x, f, FALSE, ty)], transitive |-> [ty \in Tys |-> ChangesTy(x, f, TRUE, ty)]]],
        list |-> [k \in 1..Len(PatSeq) |-> [ty \in {"all", "test", "no_test"} |-> ListOf(x, PatSeq[k], ty)]] ] : x \in QGraphs }) ]
CONSTANT QOutFile
ASSUME QOutFile = "" \/ JsonSerialize(QOutFile, QExport)
=============================================================================
