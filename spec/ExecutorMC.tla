---- MODULE ExecutorMC ----
(* Executor.tla over every DAG on 1..N (topological numbering), every dependency-closed selection, every failing subset. *)
EXTENDS Executor
CONSTANTS N, MaxWorkers
ASSUME XNodes = 1..N
MCInit == /\ XDeps \in {D \in [XNodes -> SUBSET XNodes] : \A n \in XNodes : \A m \in D[n] : m < n}
          /\ XSelected \in {S \in SUBSET XNodes : S # {} /\ \A n \in S : XDeps[n] \subseteq S}
          /\ XWorkers \in 1..MaxWorkers /\ XCanFail \in SUBSET XSelected /\ XFailFast \in BOOLEAN
          /\ Init
MCSpec == MCInit /\ [][Next]_xvars
====
