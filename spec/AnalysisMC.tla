---- MODULE AnalysisMC ----
EXTENDS Analysis
OutFileC == "analysis_cases.json"
F(p) == [kind |-> "file", path |-> p, abs |-> FALSE]
D(p) == [kind |-> "dir", path |-> p, abs |-> FALSE]
OutMenuFull == { F(<<"o">>), F(<<".", "o">>), F(<<"d", "..", "o">>), D(<<"d">>), D(<<"d", ".">>), F(<<"d", "x">>), D(<<"d", "e">>),
                 [kind |-> "docker", path |-> <<"img">>, abs |-> FALSE], F(<<"..", "o">>), F(<<"..", "..", "..", "o">>),
                 D(<<"..", "..", "..", "x">>), [kind |-> "file", path |-> <<"abs">>, abs |-> TRUE], D(<<"..", "d">>),
                 F(<<"..", "..", "SIB", "o">>), D(<<"..", "..", "SIB">>), D(<<"d-c">>), D(<<"..", "d-c">>) }
OutMenuQuick == { F(<<"o">>), F(<<"d", "..", "o">>), D(<<"d">>), F(<<"d", "x">>), D(<<"d", "e">>),
                  [kind |-> "docker", path |-> <<"img">>, abs |-> FALSE], F(<<"..", "o">>), F(<<"..", "..", "..", "o">>),
                  D(<<"..", "..", "..", "x">>), D(<<"..", "d">>), F(<<"..", "..", "SIB", "o">>), D(<<"d-c">>), D(<<"..", "d-c">>) }
\* "d-c": a sibling of the directory d whose name sorts between "d" and "d/" (no overlap with d or anything below d)
\* "SIB" is rendered as <name of the workspace directory>-x: from package p the path ../../SIB/o is a sibling of the workspace whose
\* name has the workspace's name as a string prefix (outside); from p/d it is a directory inside the workspace
====
