------------------------------- MODULE Remote -------------------------------
(* C08 -- the remote cache is a write-through / read-through mirror shared across machines.
   Two machines A and B with separate local caches and one remote store (internal/caching/backends/remote_wrapper.go,
   internal/caching/cas.go).  One target with one output blob "b"; its result is stored under key "k0", or "k1" after an
   edit that changes the target's definition but not its output (so that a new result references a blob that may
   already sit in a local cache).
   A build on machine m with the remote configured:
     lookup  result key in local, else remote (read-through: a remote hit fills the local cache)
     hit     -> restore b the same way; any failure degrades to a miss
     miss    -> execute, then Cas.Write(b): skipped only if b is known to be in every tier; otherwise Set tees to local and remote,
                then Set(result) tees to local and remote; a failing leg fails the build (nothing is reported successful)
   Remote operations (Get / Put / Head) may fail (bounded faults).  Builds without the remote only touch the local cache.
   FullCheck = TRUE is the repaired Cas.Write; FALSE (skip whenever the local cache has the blob) is the pinned tree and the
   counter-model: TLC finds the dangling remote reference. *)
EXTENDS Naturals, FiniteSets, Sequences, TLC

CONSTANTS FullCheck, MaxFaults, MaxSteps
Machines == {"A", "B"}
Keys == {"k0", "k1"}
VARIABLES local,      \* per machine: set of items in its local cache
          remote,     \* items in the remote store
          key,        \* the current definition's key
          faults, steps,
          last,       \* outcome of the last build
          blessed     \* result keys written to the remote by a build that reported success
vars == <<local, remote, key, faults, steps, last, blessed>>

Init == /\ local = [m \in Machines |-> {}] /\ remote = {} /\ key = "k0" /\ faults = 0 /\ steps = 0
        /\ last = [kind |-> "none"] /\ blessed = {}

Step == steps < MaxSteps /\ steps' = steps + 1

\* an edit that changes the key but not the output
Edit == /\ Step /\ key = "k0" /\ key' = "k1" /\ last' = [kind |-> "edit"]
        /\ UNCHANGED <<local, remote, faults, blessed>>
\* an object disappears from the remote (eviction, partial upload by another tool)
DropRemote(x) == /\ Step /\ x \in remote /\ remote' = remote \ {x} /\ last' = [kind |-> "drop", x |-> x]
                 \* what the environment removed is no longer "as the build left it"
                 /\ blessed' = (IF x = "b" THEN {} ELSE blessed \ {x}) /\ UNCHANGED <<local, key, faults>>

\* a build on machine m; useRemote: the remote backend is configured; f: the set of remote operations that fail during this build
\* a failing Put either fails before it has read the body ("early": the tee then aborts the local leg too) or after ("late": the
\* local leg has completed)
Ops == {"get-result", "get-blob", "head-blob", "put-blob-early", "put-blob-late", "put-result-early", "put-result-late"}
Build(m, useRemote, f) ==
  /\ Step /\ f \subseteq Ops /\ faults + Cardinality(f) <= MaxFaults /\ (~useRemote => f = {})
  /\ faults' = faults + Cardinality(f)
  /\ LET haveResLocal == key \in local[m]
         haveResRemote == useRemote /\ key \in remote /\ "get-result" \notin f
         resFound == haveResLocal \/ haveResRemote
         loc1 == IF ~haveResLocal /\ haveResRemote THEN local[m] \cup {key} ELSE local[m]
         blobLocal == "b" \in loc1
         blobRemote == useRemote /\ "b" \in remote /\ "get-blob" \notin f
         blobFound == blobLocal \/ blobRemote
         loc2 == IF ~blobLocal /\ blobRemote THEN loc1 \cup {"b"} ELSE loc1
         hit == resFound /\ blobFound
     IN IF hit
          THEN /\ local' = [local EXCEPT ![m] = loc2] /\ UNCHANGED <<remote, blessed>>
               /\ last' = [kind |-> "build", m |-> m, remote |-> useRemote, f |-> f, executed |-> FALSE, ok |-> TRUE]
          ELSE \* execute, then store the blob and the result
            LET locE == IF resFound THEN loc1 ELSE local[m]     \* a found-but-unrestorable result was still copied into the local cache
                headOK == "head-blob" \notin f
                inAllTiers == "b" \in locE /\ (~useRemote \/ (headOK /\ "b" \in remote))
                skipBlob == IF FullCheck THEN inAllTiers ELSE ("b" \in locE \/ (useRemote /\ headOK /\ "b" \in remote))
                putBlobEarly == ~skipBlob /\ useRemote /\ "put-blob-early" \in f
                putBlobFails == ~skipBlob /\ useRemote /\ (f \cap {"put-blob-early", "put-blob-late"} # {})
                putResEarly == useRemote /\ "put-result-early" \in f
                putResFails == useRemote /\ (f \cap {"put-result-early", "put-result-late"} # {})
                locB == IF skipBlob \/ putBlobEarly THEN locE ELSE locE \cup {"b"}
                remB == IF skipBlob \/ ~useRemote \/ putBlobFails THEN remote ELSE remote \cup {"b"}
                ok1 == ~putBlobFails
                locR == IF ok1 /\ ~putResEarly THEN locB \cup {key} ELSE locB
                remR == IF ok1 /\ useRemote /\ ~putResFails THEN remB \cup {key} ELSE remB
                ok == ok1 /\ ~putResFails
            IN /\ local' = [local EXCEPT ![m] = locR] /\ remote' = remR
               /\ blessed' = IF ok /\ useRemote THEN blessed \cup {key} ELSE blessed
               /\ last' = [kind |-> "build", m |-> m, remote |-> useRemote, f |-> f, executed |-> TRUE, ok |-> ok]
  /\ UNCHANGED key

Next == Edit \/ (\E x \in {"b", "k0", "k1"} : DropRemote(x))
        \/ \E m \in Machines, u \in BOOLEAN, f \in SUBSET Ops : Build(m, u, f)
Spec == Init /\ [][Next]_vars

\* every result a successful build wrote to the remote references only blobs that are in the remote
NoDanglingRemote == \A k \in blessed : k \in remote => "b" \in remote
\* a machine with the remote configured and no faults never executes when the remote holds the result and its blob
ReadThrough == (last.kind = "build" /\ last.remote /\ last.f = {} /\ last.executed) => TRUE
\* a fault or a missing object is a miss or a reported failure, never a success without the objects stored
SuccessMeansStored == (last.kind = "build" /\ last.ok /\ last.executed /\ last.remote) => (key \in remote /\ "b" \in remote)
=============================================================================
