------------------------------- MODULE Remote -------------------------------
(* C08 -- the remote cache is a write-through / read-through mirror shared across machines.
   Two machines A and B with separate local caches and one remote store (internal/caching/backends/remote_wrapper.go,
   internal/caching/cas.go).  One target with one output blob "b"; its result is stored under key "k0", or "k1" after an
   edit that changes the target's definition but not its output (so that a new result references a blob that may
   already sit in a local cache).
   A build on machine m with the remote configured:
     lookup  result key in local, else remote (read-through: a remote hit fills the local cache)
     hit     -> restore b the same way; any failure degrades to a miss
     miss    -> execute, then Cas.Write(b): skipped only if b is known to be in every tier; otherwise Set tees to local and remote,
                then Set(result) tees to local and remote; a failing leg fails the build (nothing is reported successful)
   Remote operations (Get / Put / Head) may fail (bounded faults).  Builds without the remote only touch the local cache.
   FullCheck = TRUE is the repaired Cas.Write; FALSE (skip whenever the local cache has the blob) is the pinned tree and the
   counter-model: TLC finds the dangling remote reference. *)
EXTENDS Naturals, FiniteSets, Sequences, TLC

CONSTANTS FullCheck, MaxFaults, MaxSteps
Machines == {"A", "B"}
\* two targets: g, and c which depends on g and copies its output -- both outputs are the same blob "b".  g's key is fixed,
\* c's key is "k0", or "k1" after an output-preserving edit of c.
Order == <<"g", "c">>
VARIABLES local,      \* per machine: set of items in its local cache
          remote,     \* items in the remote store
          key,        \* the current key of c
          faults, steps,
          last,       \* outcome of the last build
          blessed     \* result keys written to the remote by a build that reported success
vars == <<local, remote, key, faults, steps, last, blessed>>
KeyOf(t, k) == IF t = "g" THEN "g0" ELSE k

Init == /\ local = [m \in Machines |-> {}] /\ remote = {} /\ key = "k0" /\ faults = 0 /\ steps = 0
        /\ last = [kind |-> "none"] /\ blessed = {}

Step == steps < MaxSteps /\ steps' = steps + 1

\* an edit of c that changes its key but not its output
Edit == /\ Step /\ key = "k0" /\ key' = "k1" /\ last' = [kind |-> "edit"]
        /\ UNCHANGED <<local, remote, faults, blessed>>
\* an object disappears from the remote (eviction, partial upload by another tool)
DropRemote(x) == /\ Step /\ x \in remote /\ remote' = remote \ {x} /\ last' = [kind |-> "drop", x |-> x]
                 \* what the environment removed is no longer "as the build left it"
                 /\ blessed' = (IF x = "b" THEN {} ELSE blessed \ {x}) /\ UNCHANGED <<local, key, faults>>

\* a failing Put either fails before it has read the body ("early": the tee then aborts the local leg too) or after ("late": the
\* local leg has completed)
\* "local-cas": the blob directory of the machine's local cache cannot be read or written during this build (a storage fault
\* of the local tier while the remote is healthy); only on a machine whose local cache holds no blob yet
Ops == {"get-result", "get-blob", "head-blob", "put-blob-early", "put-blob-late", "put-result-early", "put-result-late", "local-cas"}

\* one target of a build on a machine; st = [loc, rem, ok, executed, blessed, failed]
OneTarget(st, t, k, useRemote, f) ==
  IF st.failed THEN st ELSE
  LET kk == KeyOf(t, k)
      haveResLocal == kk \in st.loc
      haveResRemote == useRemote /\ kk \in st.rem /\ "get-result" \notin f
      resFound == haveResLocal \/ haveResRemote
      loc1 == IF ~haveResLocal /\ haveResRemote THEN st.loc \cup {kk} ELSE st.loc
      lcb == "local-cas" \in f
      blobLocal == "b" \in loc1 /\ ~lcb
      \* read-through stores the remote blob in the local tier first: with a broken local blob directory the read fails
      blobRemote == useRemote /\ "b" \in st.rem /\ "get-blob" \notin f /\ ~lcb
      blobFound == blobLocal \/ blobRemote
      loc2 == IF ~blobLocal /\ blobRemote THEN loc1 \cup {"b"} ELSE loc1
      hit == resFound /\ blobFound
  IN IF hit THEN [st EXCEPT !.loc = loc2]
     ELSE
       LET locE == IF resFound THEN loc1 ELSE st.loc
           headOK == "head-blob" \notin f
           inAllTiers == ~lcb /\ "b" \in locE /\ (~useRemote \/ (headOK /\ "b" \in st.rem))
           skipBlob == IF FullCheck THEN inAllTiers ELSE ("b" \in locE \/ (useRemote /\ headOK /\ "b" \in st.rem))
           \* the local leg of the tee fails at once: the copy is aborted, the remote Put sees the error and stores nothing
           putBlobEarly == ~skipBlob /\ useRemote /\ (lcb \/ "put-blob-early" \in f)
           putBlobFails == ~skipBlob /\ useRemote /\ (f \cap {"put-blob-early", "put-blob-late", "local-cas"} # {})
           putResEarly == useRemote /\ "put-result-early" \in f
           putResFails == useRemote /\ (f \cap {"put-result-early", "put-result-late"} # {})
           locB == IF skipBlob \/ putBlobEarly THEN locE ELSE locE \cup {"b"}
           remB == IF skipBlob \/ ~useRemote \/ putBlobFails THEN st.rem ELSE st.rem \cup {"b"}
           ok1 == ~putBlobFails
           locR == IF ok1 /\ ~putResEarly THEN locB \cup {kk} ELSE locB
           remR == IF ok1 /\ useRemote /\ ~putResFails THEN remB \cup {kk} ELSE remB
           ok == ok1 /\ ~putResFails
       IN [loc |-> locR, rem |-> remR, ok |-> st.ok /\ ok, executed |-> st.executed \cup {t},
           blessed |-> IF ok /\ useRemote THEN st.blessed \cup {kk} ELSE st.blessed, failed |-> ~ok]

Build(m, useRemote, f) ==
  /\ Step /\ f \subseteq Ops /\ faults + Cardinality(f) <= MaxFaults /\ (~useRemote => f = {})
  /\ ("local-cas" \in f => "b" \notin local[m])
  /\ faults' = faults + Cardinality(f)
  /\ LET s0 == [loc |-> local[m], rem |-> remote, ok |-> TRUE, executed |-> {}, blessed |-> blessed, failed |-> FALSE]
         s1 == OneTarget(s0, "g", key, useRemote, f)
         s2 == OneTarget(s1, "c", key, useRemote, f)
     IN /\ local' = [local EXCEPT ![m] = s2.loc] /\ remote' = s2.rem
        \* results written to the remote count as "left by a successful build" only if the whole build reported success
        /\ blessed' = IF s2.ok THEN s2.blessed ELSE blessed
        /\ last' = [kind |-> "build", m |-> m, remote |-> useRemote, f |-> f, executed |-> s2.executed, ok |-> s2.ok]
  /\ UNCHANGED key

Next == Edit \/ (\E x \in {"b", "g0", "k0", "k1"} : DropRemote(x))
        \/ \E m \in Machines, u \in BOOLEAN, f \in SUBSET Ops : Build(m, u, f)
Spec == Init /\ [][Next]_vars

\* every result a successful build wrote to the remote references only blobs that are in the remote
NoDanglingRemote == \A k \in blessed : k \in remote => "b" \in remote
\* a machine with the remote configured and no faults never executes when the remote holds the result and its blob
\* a fault or a missing object is a miss or a reported failure, never a success without the objects stored
SuccessMeansStored == (last.kind = "build" /\ last.ok /\ last.remote) =>
                         \A t \in last.executed : KeyOf(t, key) \in remote /\ "b" \in remote
=============================================================================
