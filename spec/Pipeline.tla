------------------------------- MODULE Pipeline -------------------------------
(* The per-target pipeline of internal/execution/execute.go as an event automaton, validated against the hook events of
   real `grog build` runs (binding B1 at the CLI level; the events come from the history replays of the GrogBuild engine).
   One build = one trace: header (dependencies with aliases resolved, num_workers, cache enabled, no-cache targets, mode),
   then the events in process-wide sequence order.
     t.hash -> t.lookup(found) -> t.check(pass) -> t.taint(tainted) -> [t.load(ok)] -> t.hit | t.exec
     t.exec -> [t.loaddep / t.rerundep (minimal mode)] -> t.cmd.start -> t.cmd.end(ok) -> [t.recheck(fail)] -> t.result.write -> t.stored(ok)
   Properties (C03 at the CLI: DepsFirstCli, AtMostOnceCli, WorkerBoundCli; C02/C13/C14: HitRule; C05: NoResultAfterFailure). *)
EXTENDS Naturals, Sequences, FiniteSets, TLC, Json

CONSTANTS Targets, TraceFile
Traces == JsonDeserialize(TraceFile)
VARIABLES ti, l, st, found, tainted, pass, active, starts, rerun,
          ldeps      \* (target, dependency) pairs for which the loading of the dependency's outputs was begun (minimal mode)
vars == <<ti, l, st, found, tainted, pass, active, starts, rerun, ldeps>>
ToSet(s) == {s[i] : i \in DOMAIN s}
H == Traces[ti].hdr
DepsOf(t) == IF t \in DOMAIN H.deps THEN ToSet(H.deps[t]) ELSE {}
Ev == Traces[ti].ev[l]
Is(k) == ti <= Len(Traces) /\ l <= Len(Traces[ti].ev) /\ Ev.k = k
Adv == l' = l + 1 /\ ti' = ti
\* (a dependency that is being re-run for a dependant after a cache fault was done before and stays done for the ordering rule)
Done(t) == st[t] \in {"done-hit", "done-ok", "recmd", "recmdok"}

Reset == /\ st' = [t \in Targets |-> "idle"] /\ found' = [t \in Targets |-> FALSE] /\ tainted' = [t \in Targets |-> FALSE]
         /\ pass' = [t \in Targets |-> TRUE] /\ active' = {} /\ starts' = [t \in Targets |-> 0] /\ rerun' = {} /\ ldeps' = {}
Init == /\ ti = 1 /\ l = 1 /\ st = [t \in Targets |-> "idle"] /\ found = [t \in Targets |-> FALSE] /\ tainted = [t \in Targets |-> FALSE]
        /\ pass = [t \in Targets |-> TRUE] /\ active = {} /\ starts = [t \in Targets |-> 0] /\ rerun = {} /\ ldeps = {}
NextTrace == ti' = ti + 1 /\ l' = 1 /\ Reset

Core ==
  \/ /\ Is("t.hash") /\ st[Ev.t] = "idle" /\ \A d \in DepsOf(Ev.t) : Done(d)                            \* DepsFirstCli
     /\ st' = [st EXCEPT ![Ev.t] = "hashed"] /\ Adv /\ UNCHANGED <<found, tainted, pass, active, starts, rerun, ldeps>>
  \/ /\ Is("t.lookup") /\ st[Ev.t] = "hashed" /\ Cardinality(active \cup {Ev.t}) <= H.workers            \* WorkerBoundCli
     /\ st' = [st EXCEPT ![Ev.t] = "looked"] /\ found' = [found EXCEPT ![Ev.t] = Ev.b] /\ active' = active \cup {Ev.t}
     /\ Adv /\ UNCHANGED <<tainted, pass, starts, rerun, ldeps>>
  \/ /\ Is("t.check") /\ st[Ev.t] = "looked" /\ pass' = [pass EXCEPT ![Ev.t] = Ev.b] /\ Adv /\ UNCHANGED <<st, found, tainted, active, starts, rerun, ldeps>>
  \/ /\ Is("t.taint") /\ st[Ev.t] = "looked" /\ tainted' = [tainted EXCEPT ![Ev.t] = Ev.b] /\ Adv /\ UNCHANGED <<st, found, pass, active, starts, rerun, ldeps>>
  \/ /\ Is("t.load") /\ Adv /\ UNCHANGED <<st, found, tainted, pass, active, starts, rerun, ldeps>>
  \* HitRule: a cached result is used only if it was found, the target is not tainted, not no-cache, the cache is enabled and the checks pass
  \/ /\ Is("t.hit") /\ st[Ev.t] = "looked" /\ found[Ev.t] /\ ~tainted[Ev.t] /\ pass[Ev.t] /\ H.cacheOn /\ Ev.t \notin ToSet(H.nocache)
     /\ st' = [st EXCEPT ![Ev.t] = "done-hit"] /\ active' = active \ {Ev.t} /\ Adv /\ UNCHANGED <<found, tainted, pass, starts, rerun, ldeps>>
  \/ /\ Is("t.exec") /\ st[Ev.t] = "looked" /\ st' = [st EXCEPT ![Ev.t] = "exec"] /\ Adv /\ UNCHANGED <<found, tainted, pass, active, starts, rerun, ldeps>>
  \/ /\ Is("t.loaddep") /\ ldeps' = ldeps \cup {<<Ev.t, Ev.d>>} /\ Adv /\ UNCHANGED <<st, found, tainted, pass, active, starts, rerun>>
  \/ /\ Is("t.rerundep") /\ rerun' = rerun \cup {Ev.d} /\ Adv /\ UNCHANGED <<st, found, tainted, pass, active, starts, ldeps>>
  \* AtMostOnceCli: one command start per target and build (a dependency re-run by a dependant in minimal mode is announced by t.rerundep)
  \/ /\ Is("t.cmd.start")
     /\ \/ /\ st[Ev.t] = "exec" /\ starts[Ev.t] = 0 /\ st' = [st EXCEPT ![Ev.t] = "cmd"] /\ UNCHANGED rerun
           \* LoadedBeforeCommand (C15): in minimal mode the outputs of every direct dependency were taken care of first
           /\ H.mode = "minimal" => \A d \in DepsOf(Ev.t) : <<Ev.t, d>> \in ldeps
        \/ Ev.t \in rerun /\ st[Ev.t] \in {"done-hit", "done-ok"} /\ st' = [st EXCEPT ![Ev.t] = "recmd"] /\ rerun' = rerun \ {Ev.t}
     /\ starts' = [starts EXCEPT ![Ev.t] = @ + 1] /\ Adv /\ UNCHANGED <<found, tainted, pass, active, ldeps>>
  \/ /\ Is("t.cmd.end") /\ st[Ev.t] \in {"cmd", "recmd"}
     /\ st' = [st EXCEPT ![Ev.t] = IF st[Ev.t] = "recmd" THEN (IF Ev.b THEN "recmdok" ELSE "done-fail") ELSE (IF Ev.b THEN "cmdok" ELSE "done-fail")]
     /\ active' = IF Ev.b \/ st[Ev.t] = "recmd" THEN active ELSE active \ {Ev.t}
     /\ Adv /\ UNCHANGED <<found, tainted, pass, starts, rerun, ldeps>>
  \* a target without a command goes from t.exec straight to the storing of its (empty) outputs
  \/ /\ Is("t.recheck") /\ st[Ev.t] \in {"cmdok", "recmdok", "exec"} /\ st' = [st EXCEPT ![Ev.t] = "done-fail"] /\ active' = active \ {Ev.t}
     /\ Adv /\ UNCHANGED <<found, tainted, pass, starts, rerun, ldeps>>
  \* NoResultAfterFailure: a result is written only for a target whose command (if any) succeeded
  \/ /\ Is("t.result.write") /\ st[Ev.t] \in {"cmdok", "recmdok", "exec"} /\ Adv /\ UNCHANGED <<st, found, tainted, pass, active, starts, rerun, ldeps>>
  \/ /\ Is("t.stored") /\ st[Ev.t] \in {"cmdok", "recmdok", "exec"}
     /\ st' = [st EXCEPT ![Ev.t] = IF Ev.b THEN "done-ok" ELSE "done-fail"]
     /\ active' = IF st[Ev.t] = "recmdok" THEN active ELSE active \ {Ev.t}
     /\ Adv /\ UNCHANGED <<found, tainted, pass, starts, rerun, ldeps>>
  \/ /\ Is("t.taint.clear") /\ Adv /\ UNCHANGED <<st, found, tainted, pass, active, starts, rerun, ldeps>>
  \/ /\ ti <= Len(Traces) /\ l = Len(Traces[ti].ev) + 1 /\ NextTrace
Stuck == ti <= Len(Traces) /\ ~ENABLED Core
Next == Core \/ (Stuck /\ NextTrace)
Spec == Init /\ [][Next]_vars

S(c, n) == IF c THEN {n} ELSE {}
Why ==
  CASE Ev.k = "t.hash" -> S(st[Ev.t] # "idle", "target-hashed-twice") \cup S(\E d \in DepsOf(Ev.t) : ~Done(d), "started-before-dependency-finished")
    [] Ev.k = "t.lookup" -> S(Cardinality(active \cup {Ev.t}) > H.workers, "more-tasks-than-num_workers") \cup S(st[Ev.t] # "hashed", "lookup-out-of-order")
    [] Ev.k = "t.hit" -> S(~found[Ev.t], "hit-without-result") \cup S(tainted[Ev.t], "hit-although-tainted") \cup S(~pass[Ev.t], "hit-although-check-fails")
                         \cup S(~H.cacheOn, "hit-although-cache-disabled") \cup S(Ev.t \in ToSet(H.nocache), "hit-although-no-cache") \cup S(st[Ev.t] # "looked", "hit-out-of-order")
    [] Ev.k = "t.cmd.start" -> S(starts[Ev.t] > 0 /\ Ev.t \notin rerun, "command-started-twice") \cup S(starts[Ev.t] = 0 /\ st[Ev.t] # "exec", "command-start-out-of-order")
                               \cup S(starts[Ev.t] = 0 /\ H.mode = "minimal" /\ \E d \in DepsOf(Ev.t) : <<Ev.t, d>> \notin ldeps, "command-before-dependency-outputs-loaded")
    [] Ev.k = "t.result.write" -> {"result-written-for-failed-or-unfinished-target"}
    [] Ev.k = "t.stored" -> {"outputs-stored-for-failed-or-unfinished-target"}
    [] OTHER -> {"event-out-of-order:" \o Ev.k}
Diag == Stuck => PrintT(<<"WHY", ti, l, Ev.k, Why>>)
HighWater == TLCSet(1, IF ti > TLCGet(1) THEN ti ELSE TLCGet(1))
ASSUME TLCSet(1, 0)
Accepted == TLCGet(1) = Len(Traces) + 1
=============================================================================
