------------------------------- MODULE Walker -------------------------------
(* The DAG walker (internal/dag/graph_walker.go), the worker pool (internal/worker/task_worker_pool.go) and
   the callback wiring of internal/execution/execute.go, one action per critical section / hook event.
   Properties: C03 (DepsFirst, AtMostOnce, WorkerBound), C04 (deadlock freedom, Resolved, NoLostSignal,
   NoRace, ReturnedMapStable, termination), C05 (KeepGoing, FailFastStopsStarts), C18 (InterruptStopsStarts).

   The configuration (graph, selection, flags) lives in variables fixed by Init, so the same actions
   serve the exhaustive runs (every DAG up to N nodes) and trace validation (configuration read from the
   trace header, many traces behind a reset action).

   SplitRegistration = TRUE is the design that is model-checked: every selected node is registered before
   any node is started.  With FALSE the root starts may interleave with registration (the shape of the
   pinned code); the history flags `lost` and `raced` then record look-ups that missed an entry or ran
   concurrently with the unlocked registration writes, and NoLostSignal / NoRace are what fails. *)
EXTENDS Naturals, FiniteSets, Sequences, TLC

CONSTANTS N,                 \* node ids are 1..N
          MaxWorkers,        \* worker ids are 1..MaxWorkers
          SplitRegistration,
          AllowExtCancel

Nodes == 1..N
Workers == 1..MaxWorkers

VARIABLES Deps, Selected, FailFast, NumWorkers, CanFail            \* configuration
VARIABLES walk,          \* "registering" | "waiting" | "returned_done" | "returned_ctx"
          registered,    \* keys of nodeInfoMap
          rootStarted,   \* roots for which Walk called startNode
          pendingStart,  \* startNode calls issued by onComplete, not yet looked up
          cancelCause,   \* nodes for which some cancelNode call has been issued (idempotent, any number)
          pc,            \* per node: none | parked | called | running | taskdone | returned | finished
          ready,         \* per node: ready messages in flight
          cancelled,     \* per node: cancel channel closed
          completion,    \* per node: none | ok | fail        (the CompletionMap)
          result,        \* per node: what the callback returned, awaiting onComplete
          ffTriggered, ffCancelled, ctxCancelled, extCancelled, poolClosed,
          slot,          \* per worker: node whose task it runs, or 0
          everCalled,    \* nodes whose callback was ever entered
          lost, raced,   \* history flags (see above)
          retSize,       \* size of the completion map handed to the caller
          snapped        \* the cancelled-path copy has been taken

cfgvars == <<Deps, Selected, FailFast, NumWorkers, CanFail>>
dynvars == <<walk, registered, rootStarted, pendingStart, cancelCause, pc, ready, cancelled, completion, result,
             ffTriggered, ffCancelled, ctxCancelled, extCancelled, poolClosed, slot, everCalled, lost, raced,
             retSize, snapped>>
vars == <<cfgvars, dynvars>>

Dependants(n) == {m \in Nodes : n \in Deps[m]}
\* transitive dependants / dependencies as fixpoints (work polynomial in the graph, not in its number of paths)
RECURSIVE GrowDown(_)
GrowDown(X) == LET Y == X \cup {m \in Nodes : Deps[m] \cap X # {}} IN IF Y = X THEN X ELSE GrowDown(Y)
DescOfSet(S) == GrowDown({m \in Nodes : Deps[m] \cap S # {}})
Desc(n) == DescOfSet({n})
RECURSIVE GrowUp(_)
GrowUp(X) == LET Y == X \cup UNION {Deps[m] : m \in X} IN IF Y = X THEN X ELSE GrowUp(Y)
Anc(n) == GrowUp(Deps[n])
Closed(S, D) == \A n \in S : D[n] \subseteq S
Returned == walk \in {"returned_done", "returned_ctx"}

DynInit ==
  /\ walk = "registering" /\ registered = {} /\ rootStarted = {} /\ pendingStart = {} /\ cancelCause = {}
  /\ pc = [n \in Nodes |-> "none"] /\ ready = [n \in Nodes |-> 0] /\ cancelled = [n \in Nodes |-> FALSE]
  /\ completion = [n \in Nodes |-> "none"] /\ result = [n \in Nodes |-> "none"]
  /\ ffTriggered = FALSE /\ ffCancelled = FALSE /\ ctxCancelled = FALSE /\ extCancelled = FALSE /\ poolClosed = FALSE
  /\ slot = [w \in Workers |-> 0] /\ everCalled = {} /\ lost = {} /\ raced = FALSE /\ retSize = 0 /\ snapped = FALSE

\* every DAG over 1..N in topological numbering, every dependency-closed selection, every failure oracle
Init ==
  /\ Deps \in {D \in [Nodes -> SUBSET Nodes] : \A n \in Nodes : \A m \in D[n] : m < n}
  /\ Selected \in {S \in SUBSET Nodes : S # {} /\ Closed(S, Deps)}
  /\ FailFast \in BOOLEAN
  /\ NumWorkers \in 1..MaxWorkers
  /\ CanFail \in SUBSET Selected
  /\ DynInit

(* ------------------------------------------------------------------ Walk goroutine *)
WalkRegister(n) ==
  /\ walk = "registering" /\ n \in Selected \ registered
  /\ registered' = registered \cup {n}
  /\ pc' = [pc EXCEPT ![n] = "parked"]
  /\ UNCHANGED <<walk, rootStarted, pendingStart, cancelCause, ready, cancelled, completion, result, ffTriggered, ffCancelled,
                 ctxCancelled, extCancelled, poolClosed, slot, everCalled, lost, raced, retSize, snapped>>

WalkRegistered ==
  /\ walk = "registering" /\ registered = Selected
  /\ walk' = "waiting"
  /\ UNCHANGED <<registered, rootStarted, pendingStart, cancelCause, pc, ready, cancelled, completion, result, ffTriggered,
                 ffCancelled, ctxCancelled, extCancelled, poolClosed, slot, everCalled, lost, raced, retSize, snapped>>

\* Walk's own startNode(root): the entry was written by this goroutine, so the look-up always finds it
WalkStartRoot(n) ==
  /\ n \in registered /\ Deps[n] = {} /\ n \notin rootStarted /\ ~Returned
  /\ SplitRegistration => walk = "waiting"
  /\ rootStarted' = rootStarted \cup {n}
  /\ ready' = [ready EXCEPT ![n] = @ + 1]
  /\ UNCHANGED <<walk, registered, pendingStart, cancelCause, pc, cancelled, completion, result, ffTriggered, ffCancelled,
                 ctxCancelled, extCancelled, poolClosed, slot, everCalled, lost, raced, retSize, snapped>>

RootsStarted == \A n \in Selected : Deps[n] = {} => n \in rootStarted

WalkReturnDone ==
  /\ walk = "waiting" /\ RootsStarted /\ \A n \in Selected : pc[n] = "finished"
  /\ walk' = "returned_done"
  /\ retSize' = Cardinality({n \in Nodes : completion[n] # "none"})
  /\ UNCHANGED <<registered, rootStarted, pendingStart, cancelCause, pc, ready, cancelled, completion, result, ffTriggered,
                 ffCancelled, ctxCancelled, extCancelled, poolClosed, slot, everCalled, lost, raced, snapped>>

WalkReturnCtx ==
  /\ walk = "waiting" /\ RootsStarted /\ (ctxCancelled \/ ffTriggered)
  /\ walk' = "returned_ctx"
  /\ cancelCause' = Nodes
  /\ retSize' = 0
  /\ UNCHANGED <<registered, rootStarted, pendingStart, pc, ready, cancelled, completion, result, ffTriggered,
                 ffCancelled, ctxCancelled, extCancelled, poolClosed, slot, everCalled, lost, raced, snapped>>

\* on the cancelled path the caller receives a copy of the completion map taken under doneMutex
Snapshot(sz) ==
  /\ walk = "returned_ctx" /\ snapped = FALSE
  /\ sz = Cardinality({n \in Nodes : completion[n] # "none"})
  /\ retSize' = sz /\ snapped' = TRUE
  /\ UNCHANGED <<walk, registered, rootStarted, pendingStart, cancelCause, pc, ready, cancelled, completion, result, ffTriggered,
                 ffCancelled, ctxCancelled, extCancelled, poolClosed, slot, everCalled, lost, raced>>

(* ------------------------------------------------------------------ startNode / cancelNode (under nodeMutex) *)
StartLookup(n, found) ==
  /\ n \in pendingStart /\ (found <=> n \in registered)
  /\ pendingStart' = pendingStart \ {n}
  /\ ready' = IF found THEN [ready EXCEPT ![n] = @ + 1] ELSE ready
  /\ lost' = IF ~found /\ n \in Selected THEN lost \cup {<<"start", n>>} ELSE lost
  /\ raced' = (raced \/ walk = "registering")
  /\ UNCHANGED <<walk, registered, rootStarted, cancelCause, pc, cancelled, completion, result, ffTriggered, ffCancelled,
                 ctxCancelled, extCancelled, poolClosed, slot, everCalled, retSize, snapped>>

CancelLookup(n, found) ==
  /\ n \in cancelCause /\ (found <=> n \in registered)
  /\ cancelled' = IF found THEN [cancelled EXCEPT ![n] = TRUE] ELSE cancelled
  /\ lost' = IF ~found /\ n \in Selected THEN lost \cup {<<"cancel", n>>} ELSE lost
  /\ raced' = (raced \/ walk = "registering")
  /\ UNCHANGED <<walk, registered, rootStarted, pendingStart, cancelCause, pc, ready, completion, result, ffTriggered,
                 ffCancelled, ctxCancelled, extCancelled, poolClosed, slot, everCalled, retSize, snapped>>

(* ------------------------------------------------------------------ node routine *)
NodeTook(n, what) ==
  /\ pc[n] = "parked"
  /\ \/ /\ what = "ready" /\ ready[n] > 0
        /\ ready' = [ready EXCEPT ![n] = @ - 1]
        /\ pc' = [pc EXCEPT ![n] = "called"]
        /\ everCalled' = everCalled \cup {n}
     \/ /\ what = "cancel" /\ cancelled[n]
        /\ pc' = [pc EXCEPT ![n] = "finished"]
        /\ UNCHANGED <<ready, everCalled>>
  /\ UNCHANGED <<walk, registered, rootStarted, pendingStart, cancelCause, cancelled, completion, result, ffTriggered,
                 ffCancelled, ctxCancelled, extCancelled, poolClosed, slot, lost, raced, retSize, snapped>>

\* a worker takes the node's job; ctxc is what the task observes of the walker context when it is about to start its command
TaskStart(n, w, ctxc) ==
  /\ pc[n] = "called" /\ w \in 1..NumWorkers /\ slot[w] = 0
  /\ ~ctxc => ~ctxCancelled
  /\ ctxc => (ctxCancelled \/ ffTriggered)      \* allCancel() runs just before the FFCancel event
  /\ pc' = [pc EXCEPT ![n] = "running"]
  /\ slot' = [slot EXCEPT ![w] = n]
  \* what the task saw is remembered until it ends: a task that found the context cancelled starts no command ("dead")
  /\ result' = [result EXCEPT ![n] = IF ctxc THEN "dead" ELSE "live"]
  /\ UNCHANGED <<walk, registered, rootStarted, pendingStart, cancelCause, ready, cancelled, completion, ffTriggered,
                 ffCancelled, ctxCancelled, extCancelled, poolClosed, everCalled, lost, raced, retSize, snapped>>

TaskEnd(n, r) ==
  /\ pc[n] = "running"
  /\ \/ r = "ok" /\ result[n] = "live"
     \/ r = "fail" /\ n \in CanFail /\ result[n] = "live"
     \/ r = "canceled" /\ (ctxCancelled \/ ffTriggered)
  /\ pc' = [pc EXCEPT ![n] = "taskdone"]
  /\ result' = [result EXCEPT ![n] = r]
  /\ slot' = [w \in Workers |-> IF slot[w] = n THEN 0 ELSE slot[w]]
  /\ UNCHANGED <<walk, registered, rootStarted, pendingStart, cancelCause, ready, cancelled, completion, ffTriggered,
                 ffCancelled, ctxCancelled, extCancelled, poolClosed, everCalled, lost, raced, retSize, snapped>>

\* the callback returns: the task's result, or "poolclosed" when Run refused the job (an error that is not Canceled)
CbReturn(n, r) ==
  /\ \/ pc[n] = "taskdone" /\ r = result[n] /\ UNCHANGED result
     \/ pc[n] = "called" /\ r = "poolclosed" /\ poolClosed /\ result' = [result EXCEPT ![n] = "fail"]
  /\ pc' = [pc EXCEPT ![n] = "returned"]
  /\ UNCHANGED <<walk, registered, rootStarted, pendingStart, cancelCause, ready, cancelled, completion, ffTriggered,
                 ffCancelled, ctxCancelled, extCancelled, poolClosed, slot, everCalled, lost, raced, retSize, snapped>>

ReadyDependants(n, comp) == {d \in Dependants(n) : \A p \in Deps[d] : comp[p] = "ok"}

\* onComplete, atomic under doneMutex: record, then trigger fail-fast / cancel descendants / release dependants
NodeComplete(n, ok, ff) ==
  /\ pc[n] = "returned" /\ result[n] \in {"ok", "fail"} /\ (ok <=> result[n] = "ok") /\ (ff <=> ffTriggered)
  /\ pc' = [pc EXCEPT ![n] = "finished"]
  /\ LET comp == [completion EXCEPT ![n] = result[n]] IN
     /\ completion' = comp
     /\ IF ffTriggered THEN UNCHANGED <<pendingStart, cancelCause, ffTriggered>>
        ELSE IF result[n] = "fail"
          THEN IF FailFast THEN ffTriggered' = TRUE /\ UNCHANGED <<pendingStart, cancelCause>>
                           ELSE cancelCause' = cancelCause \cup Desc(n) /\ UNCHANGED <<pendingStart, ffTriggered>>
          ELSE pendingStart' = pendingStart \cup ReadyDependants(n, comp) /\ UNCHANGED <<cancelCause, ffTriggered>>
  /\ UNCHANGED <<walk, registered, rootStarted, ready, cancelled, result, ffCancelled, ctxCancelled, extCancelled, poolClosed,
                 slot, everCalled, lost, raced, retSize, snapped>>

\* still inside the same onComplete: allCancel() has been called, cancelAll() goroutines are spawned next
FFCancel ==
  /\ ffTriggered /\ ~ffCancelled
  /\ ffCancelled' = TRUE /\ ctxCancelled' = TRUE /\ cancelCause' = Nodes
  /\ UNCHANGED <<walk, registered, rootStarted, pendingStart, pc, ready, cancelled, completion, result, ffTriggered,
                 extCancelled, poolClosed, slot, everCalled, lost, raced, retSize, snapped>>

\* the callback returned context.Canceled: the node is left uncompleted
NodeCanceled(n) ==
  /\ pc[n] = "returned" /\ result[n] = "canceled"
  /\ pc' = [pc EXCEPT ![n] = "finished"]
  /\ UNCHANGED <<walk, registered, rootStarted, pendingStart, cancelCause, ready, cancelled, completion, result, ffTriggered,
                 ffCancelled, ctxCancelled, extCancelled, poolClosed, slot, everCalled, lost, raced, retSize, snapped>>

(* ------------------------------------------------------------------ environment *)
ExtCancel ==
  /\ AllowExtCancel /\ ~extCancelled
  /\ extCancelled' = TRUE /\ ctxCancelled' = TRUE
  /\ UNCHANGED <<walk, registered, rootStarted, pendingStart, cancelCause, pc, ready, cancelled, completion, result, ffTriggered,
                 ffCancelled, poolClosed, slot, everCalled, lost, raced, retSize, snapped>>

\* the pool is shut down by its context watcher (external cancel) or by Execute's deferred Shutdown after Walk returned
PoolShutdown ==
  /\ ~poolClosed /\ (extCancelled \/ Returned)
  /\ poolClosed' = TRUE
  /\ UNCHANGED <<walk, registered, rootStarted, pendingStart, cancelCause, pc, ready, cancelled, completion, result, ffTriggered,
                 ffCancelled, ctxCancelled, extCancelled, slot, everCalled, lost, raced, retSize, snapped>>

Done == Returned /\ UNCHANGED dynvars

MinFree == CHOOSE w \in 1..NumWorkers : slot[w] = 0 /\ \A v \in 1..NumWorkers : slot[v] = 0 => w <= v

Next0 ==
  \/ \E n \in Nodes :
        \/ WalkRegister(n) \/ WalkStartRoot(n)
        \/ \E f \in BOOLEAN : StartLookup(n, f) \/ CancelLookup(n, f)
        \/ NodeTook(n, "ready") \/ NodeTook(n, "cancel")
        \/ (\E w \in 1..NumWorkers : slot[w] = 0) /\ TaskStart(n, MinFree, ctxCancelled)
        \/ \E r \in {"ok", "fail", "canceled"} : TaskEnd(n, r)
        \/ \E r \in {"ok", "fail", "canceled", "poolclosed"} : CbReturn(n, r)
        \/ \E o \in BOOLEAN : NodeComplete(n, o, ffTriggered)
        \/ NodeCanceled(n)
  \/ WalkRegistered \/ FFCancel \/ ExtCancel \/ PoolShutdown \/ WalkReturnDone \/ WalkReturnCtx
  \/ \E sz \in 0..N : Snapshot(sz)
  \/ Done

Next == Next0 /\ UNCHANGED cfgvars
Spec == Init /\ [][Next]_vars
FairSpec == Spec /\ WF_vars(Next0 /\ ~Done /\ UNCHANGED cfgvars)

(* ------------------------------------------------------------------ properties *)
Active == {"called", "running", "taskdone", "returned"}
\* C03: a callback/command runs only after every transitive dependency completed successfully in this walk
\* (stated on direct dependencies together with "a success was called": by induction over the graph this is the transitive
\* statement DepsFirstTransitive, which the exhaustive runs check as well)
DepsFirst == /\ \A n \in everCalled : \A p \in Deps[n] : completion[p] = "ok"
             /\ \A p \in Nodes : completion[p] = "ok" => p \in everCalled
DepsFirstTransitive == \A n \in everCalled : \A p \in Anc(n) : completion[p] = "ok"
\* C03: at most NumWorkers tasks at any instant, one per worker
WorkerBound == /\ Cardinality({n \in Nodes : pc[n] = "running"}) <= NumWorkers
               /\ \A w \in Workers : slot[w] # 0 => w <= NumWorkers /\ pc[slot[w]] = "running"
               /\ \A n \in Nodes : pc[n] = "running" => Cardinality({w \in Workers : slot[w] = n}) = 1
\* C03: each node's callback is entered at most once (a second take is impossible once pc left "parked")
AtMostOnce == [][\A n \in Nodes : (n \in everCalled /\ pc[n] # "parked") => (pc'[n] # "called" \/ pc[n] = "called")]_vars
\* C04
NoLostSignal == lost = {}
NoRace == ~raced
BelowFailure == DescOfSet({p \in Nodes : completion[p] = "fail"})
FailedAnc(n) == n \in BelowFailure
Resolved == walk = "returned_done" =>
   LET bf == BelowFailure IN \A n \in Selected : completion[n] # "none" \/ n \in bf \/ ffTriggered \/ ctxCancelled
\* C05 keep-going: everything not below a failure is built, nothing below a failure is ever called
KeepGoing == (walk = "returned_done" /\ ~FailFast /\ ~ctxCancelled) =>
   LET bf == BelowFailure IN \A n \in Selected : n \notin bf => completion[n] # "none"
NeverBelowFailure == BelowFailure \cap everCalled = {}
\* C05 keep-going, exactly: a node whose dependencies all succeeded ran and succeeded or failed (failed only if it can fail);
\* any other node has no success or failure recorded
KeepGoingExact == (walk = "returned_done" /\ ~FailFast /\ ~ctxCancelled) =>
   \A n \in Selected :
      IF \A d \in Deps[n] : completion[d] = "ok"
        THEN completion[n] \in {"ok", "fail"} /\ (completion[n] = "fail" => n \in CanFail)
        ELSE completion[n] \notin {"ok", "fail"}
\* C05 fail-fast / C18 interrupt: once the walker context is cancelled no task observes a live context (no command starts)
StopsStarts == [][ctxCancelled => \A n \in Nodes : (pc[n] = "called" /\ pc'[n] = "running") => ctxCancelled']_vars
\* C05: a failure is recorded as a failure, never as success
FailureRecorded == \A n \in Nodes : (pc[n] = "finished" /\ result[n] = "fail") => completion[n] = "fail"
\* C04 termination under fairness
Terminates == <>Returned

\* quick-tier state constraint: do not explore what leftover goroutines do after Walk returned
NotReturned == ~Returned

TypeOK == /\ walk \in {"registering", "waiting", "returned_done", "returned_ctx"}
          /\ registered \subseteq Selected
          /\ \A n \in Nodes : ready[n] \in 0..1

(* ------------------------------------------------------------------ refinement: Walker implements Executor *)
\* the goroutines, channels, maps and flags above, seen as the abstract executor of Executor.tla
AbsState == [n \in Nodes |->
   CASE pc[n] = "running" /\ result[n] = "live" -> "running"
     [] pc[n] = "running" /\ result[n] = "dead" -> "refused"
     [] pc[n] \in {"taskdone", "returned", "finished"} /\ result[n] = "ok" -> "ok"
     [] pc[n] \in {"taskdone", "returned", "finished"} /\ result[n] = "fail" -> "fail"
     [] pc[n] \in {"taskdone", "returned", "finished"} /\ result[n] = "canceled" -> "dropped"
     [] OTHER -> "waiting"]
Abs == INSTANCE Executor WITH XNodes <- Nodes, XDeps <- Deps, XSelected <- Selected, XWorkers <- NumWorkers, XCanFail <- CanFail,
                              XFailFast <- FailFast, state <- AbsState, stopped <- ctxCancelled
Refines == Abs!Spec
=============================================================================
