SPECIFICATION TSpec
CONSTANTS
  N = 12
  MaxWorkers = 4
  SplitRegistration = FALSE
  AllowExtCancel = TRUE
  TraceFile <- TraceFileC
INVARIANTS Diag
CONSTRAINT HighWater
POSTCONDITION Accepted
CHECK_DEADLOCK FALSE
